#!/bin/sh
# usage: tools_seedtest.sh <patch.diff> <prop> [extra vcheck args]; applies patch to /repo, runs check, reverts the patch
P=$1; shift; PROP=$1; shift
if [ -n "$(git -C /repo status --porcelain --untracked-files=no)" ]; then echo "REFUSING: /repo has uncommitted tracked changes"; exit 8; fi
git -C /repo apply "$P" || exit 9
( cd /verif && ./vcheck $PROP "$@" 2>&1 | grep -E "VIOLATION|KNOWN|HARNESS-ERROR|tier=|NOTE" | cut -c1-400 )
git -C /repo apply -R "$P"
