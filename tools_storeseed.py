#!/usr/bin/env python3
"""usage: tools_storeseed.py <prop> <k> <caught_by or 'MISSED'> <needs...>   copies /tmp/seed_<prop>/change<k> into /verif/seeded/<prop>-<k>/"""
import json, os, shutil, sys
prop, k, caught = sys.argv[1:4]
needs = " ".join(sys.argv[4:])
src = f"/tmp/seed_{prop}/change{k}"
dst = f"/verif/seeded/{prop}-{k}"
os.makedirs(dst, exist_ok=True)
for f in ("patch.diff", "demo.py", "notes.md"):
    if os.path.exists(os.path.join(src, f)):
        shutil.copy(os.path.join(src, f), dst)
meta = dict(property=prop, origin="independent sub-agent given only the property text and a scratch worktree",
            needs_to_manifest=needs,
            verified=["git apply patch.diff on a scratch worktree of /repo", "full test-suite: 112 passed with the change",
                      "demo.py exits 0 on the clean tree and non-zero with the change",
                      f"VERIF_REPO=<patched worktree> ./vcheck {prop} --tier quick"],
            detected_by=caught)
json.dump(meta, open(os.path.join(dst, "meta.json"), "w"), indent=1)
print("stored", dst)
