#!/bin/sh
# re-verifies every stored seed against the current /repo HEAD in a scratch worktree (removed afterwards):
# patch applies, demo passes clean / fails patched, full suite passes patched, and the quick check(s) report a VIOLATION
OUT=${1:-/verif/seeded/RESULTS.md}
WT=$(mktemp -d /tmp/reverify.XXXXXX)
git -C /repo worktree add --detach $WT/wt HEAD -q || exit 9
cp /repo/droplets/_version.py $WT/wt/droplets/ 2>/dev/null
echo "# Seeded changes re-verified against /repo $(git -C /repo rev-parse --short HEAD) on $(date -u +%F)" > $OUT
echo "" >> $OUT
echo "| seed | patch applies | demo clean / patched | suite with patch | checks run -> outcome |" >> $OUT
echo "|---|---|---|---|---|" >> $OUT
for S in /verif/seeded/C*-*; do
  ID=$(basename $S); P=${ID%-*}
  EXTRA=""
  [ "$ID" = "C02-2" ] && EXTRA="C10"
  [ "$ID" = "C17-1" ] && EXTRA="C16"
  git -C $WT/wt checkout -q -- .
  ( cd $WT/wt && PYTHONPATH=$WT/wt /venv/bin/python $S/demo.py >/dev/null 2>&1 ); DC=$?
  if git -C $WT/wt apply $S/patch.diff 2>/dev/null; then AP=yes; else AP=NO; fi
  ( cd $WT/wt && PYTHONPATH=$WT/wt /venv/bin/python $S/demo.py >/dev/null 2>&1 ); DP=$?
  TS=$( cd $WT/wt && PYTHONPATH=$WT/wt /venv/bin/python -m pytest -q -p no:cacheprovider --timeout=900 2>&1 | tail -1 | grep -o "[0-9]* passed\|[0-9]* failed" | tr '\n' ' ' )
  RES=""
  for C in $P $EXTRA; do
    O=$(mktemp -d /tmp/seedout.XXXXXX)
    ( cd /verif && VERIF_REPO=$WT/wt VERIF_OUT=$O ./vcheck $C --tier quick > $O/log 2>&1 ); RC=$?
    NV=$(grep -c "^VIOLATION" $O/log)
    H=$(grep -A1 "^VIOLATION" $O/log | grep -o "harness=[A-Za-z0-9]*" | sort -u | tr '\n' ' ')
    RES="$RES $C: exit $RC, $NV VIOLATION line(s) $H;"
    rm -rf $O
  done
  echo "| $ID | $AP | $DC / $DP | $TS | $RES |" >> $OUT
  echo "$ID done: $RES"
done
git -C $WT/wt checkout -q -- .
git -C /repo worktree remove --force $WT/wt
rm -rf $WT
