"""Runs the harnesses of one property: symbolic exploration (the deciding step), float replay of
every candidate on the installed package, model validation, known-finding classification,
evidence and exit status."""
from __future__ import annotations

import hashlib
import json
import multiprocessing as mp
import multiprocessing.pool
import os
import random
import re
import sys
import time
import traceback
from fractions import Fraction as F

VERIF = os.path.dirname(os.path.dirname(os.path.abspath(__file__)))
OUT = os.environ.get("VERIF_OUT") or VERIF     # evidence/ and replays/ go here (mutation self-tests redirect it)

TIERS = {
    # per-task path cap, per-task wall budget (s), per-query timeout (ms), validation samples
    # xc_*: second-solver re-decision of a sample of `unsat` verdicts (symx/xcheck.py)
    "quick": dict(max_paths=4000, task_budget=150.0, qtimeout_ms=10000, nsamples=3, max_replays=6,
                  xc_k=6, xc_query_s=4, xc_wall_s=16),
    "thorough": dict(max_paths=60000, task_budget=700.0, qtimeout_ms=30000, nsamples=6, max_replays=10,
                     xc_k=30, xc_query_s=10, xc_wall_s=120),
}


class Harness:
    """base class; subclasses define name, prop, configs(), body()"""

    name = "?"
    prop = "?"
    bounds = ""
    stubs: list = []
    check_defined = True
    cost = 1.0
    mod_mode = None      # "fork" | "disj" (None: engine default); how `x % period` is encoded
    angle_axioms = False  # arccos/arctan2 constrained by their defining relations (default: functional consistency)
    trig_identity = True  # sin^2+cos^2=1 per argument term
    exact_validation = True

    def configs(self, tier):
        return [{}]

    def body(self, env, cfg):
        raise NotImplementedError

    def sample(self, cfg, rng):
        """a random witness (dict name -> Fraction) inside the harness precondition, or None"""
        return None

    def overrides(self, cfg):
        return None

    def install(self, env, cfg):
        """hook to install per-path stubs (called before body in every mode)"""


def _jsonable(x):
    if isinstance(x, F):
        return f"{x.numerator}/{x.denominator}" if x.denominator != 1 else str(x.numerator)
    if isinstance(x, dict):
        return {str(k): _jsonable(v) for k, v in x.items()}
    if isinstance(x, (list, tuple, set)):
        return [_jsonable(v) for v in x]
    if isinstance(x, (str, int, float, bool)) or x is None:
        return x
    return repr(x)


def _unfrac(d):
    return {k: F(v) for k, v in d.items()}


# ------------------------------------------------------------------ per-task work (in workers)

def _float_replay(h, cfg, witness):
    """run the body on the installed package with float inputs; returns dict"""
    from . import env as envm, core
    try:
        e = envm.RealEnv(witness)
    except Exception as ex:  # import problem of the real package
        return dict(status="error", msg=f"{type(ex).__name__}: {ex}")
    try:
        h.install(e, cfg)
        h.body(e, cfg)
    except core.ReplayReject as r:
        return dict(status="rejected", msg=str(r))
    except Exception as ex:
        tb = traceback.extract_tb(ex.__traceback__)
        root = os.environ.get("VERIF_REPO", "/repo")
        site = next((f"{os.path.basename(f.filename)}:{f.lineno}:{f.name}" for f in reversed(tb)
                     if os.path.realpath(f.filename).startswith(os.path.realpath(root))), None)
        if site is None:
            return dict(status="error", msg=f"harness exception {type(ex).__name__}: {ex}",
                        tb="".join(traceback.format_exception(ex))[-1500:])
        return dict(status="violated", failed=[dict(name=f"exception:{type(ex).__name__}", detail=str(ex)[:200],
                                                    site=site)] + e.failed,
                    tags=sorted(e.tags), observed=e.observed)
    if e.failed:
        return dict(status="violated", failed=e.failed, tags=sorted(e.tags), observed=e.observed)
    return dict(status="ok", tags=sorted(e.tags), observed=e.observed, checked=e.checked)


def _norm_name(n):
    return re.sub(r"\[\d+(,\d+)*\]", "[*]", n)


def _same_failure(candidate, failed):
    """does the float replay fail the obligation family (or raise the exception type) of the candidate?"""
    names = {_norm_name(f["name"]) for f in failed}
    c = _norm_name(candidate)
    if c.startswith("exception:"):
        return c.split("@")[0] in names
    if c.startswith("def:"):
        return True          # a definedness failure shows as whatever obligation the non-finite value breaks
    return c in names


def _exact_run(h, cfg, L, witness):
    from . import env as envm, core
    holder = {}

    def fn():
        e = envm.ExactEnv(L, witness)
        holder["e"] = e
        h.install(e, cfg)
        h.body(e, cfg)

    try:
        core.run_exact(fn, witness)
    except core.ReplayReject as r:
        return dict(status="rejected", msg=str(r))
    except core.Abort as a:
        return dict(status="abort", msg=f"{a.kind}: {a.msg}")
    except Exception as ex:
        return dict(status="exception", msg=f"{type(ex).__name__}: {ex}",
                    tb="".join(traceback.format_exception(ex))[-1500:])
    e = holder["e"]
    return dict(status="violated" if e.failed else "ok", failed=e.failed, observed=e.observed)


def _cmp_observed(a, b, tol=1e-7):
    """compare observable dicts of two runs; returns list of mismatching keys"""
    bad = []
    for k in sorted(set(a) | set(b)):
        if k not in a or k not in b:
            bad.append(k)
            continue
        if not _close(a[k], b[k], tol):
            bad.append(k)
    return bad


def _close(x, y, tol):
    import math
    if isinstance(x, list) and isinstance(y, list):
        return len(x) == len(y) and all(_close(p, q, tol) for p, q in zip(x, y))
    if isinstance(x, (int, float)) and isinstance(y, (int, float)) and not isinstance(x, bool):
        if math.isnan(x) and math.isnan(y):
            return True
        return abs(x - y) <= tol * (1 + abs(x) + abs(y))
    return x == y


def run_task(args):
    hmod, hname, cfg, tier, seed = args
    t0 = time.time()
    try:
        return _run_task(hmod, hname, cfg, tier, seed, t0)
    except BaseException as ex:  # harness infrastructure error
        return dict(harness=hname, cfg=cfg, infra_error=f"{type(ex).__name__}: {ex}",
                    tb="".join(traceback.format_exception(ex))[-3000:], wall_s=time.time() - t0)


def _run_task(hmod, hname, cfg, tier, seed, t0):
    import importlib
    from . import core, loader, env as envm, xcheck
    T = dict(TIERS[tier])
    h = getattr(importlib.import_module(hmod), hname)()
    T.update(getattr(h, "tier_overrides", {}).get(tier, {}))
    loader.start_monitor()
    if h.mod_mode:
        core.MOD_MODE = h.mod_mode
    core.ANGLE_AXIOMS = bool(h.angle_axioms)
    core.TRIG_IDENTITY = bool(h.trig_identity)
    L = loader.Loaded(overrides=h.overrides(cfg))

    def fn():
        e = envm.SymEnv(L)
        h.install(e, cfg)
        h.body(e, cfg)
        core.cover("end-of-body reached", True)

    xcheck.RES = xcheck.Reservoir(T["xc_k"], hash((seed, hname, json.dumps(cfg, sort_keys=True))) & 0xFFFFFFFF)
    st = core.explore(fn, max_paths=T["max_paths"], time_budget=T["task_budget"], qtimeout_ms=T["qtimeout_ms"],
                      check_defined=h.check_defined)
    res, xcheck.RES = xcheck.RES, None
    xc = xcheck.run(res, per_query_s=T["xc_query_s"], wall_budget_s=T["xc_wall_s"],
                    save_dir=os.path.join(OUT, "replays"))
    # ---- summarise obligations
    by_name: dict[str, dict] = {}
    cands: dict[str, list] = {}
    for o in st["obligations"]:
        key = re.sub(r"\[\d+(,\d+)*\]", "[*]", o["name"])
        d = by_name.setdefault(key, dict(unsat=0, sat=0, unknown=0, rewriter=0))
        d[o["verdict"] if o["verdict"] in ("unsat", "sat") else "unknown"] += 1
        if o.get("how") in ("rewriter", "concrete") and o["verdict"] == "unsat":
            d["rewriter"] += 1
        if o["verdict"] == "sat":
            cands.setdefault(o["name"], []).append(o.get("model"))
    for x in st["exceptions"]:
        cands.setdefault(f"exception:{x['type']}@{x['site']}", []).append(x.get("model"))
        st.setdefault("exc_detail", {})[f"exception:{x['type']}@{x['site']}"] = x["msg"]
    # ---- float replay of candidates
    confirmed, unconfirmed = [], []
    for name, models in cands.items():
        done = False
        tried = 0
        last = None
        seenw = set()
        for m in models:
            if m is None:
                continue
            k = json.dumps(_jsonable(m), sort_keys=True)
            if k in seenw:
                continue
            seenw.add(k)
            if tried >= T["max_replays"]:
                break
            tried += 1
            r = _float_replay(h, cfg, m)
            last = r
            if r["status"] == "violated" and not _same_failure(name, r["failed"]):
                # the float run fails, but not the obligation the solver refuted (typically a floating-point
                # knife edge of a boundary witness): not a confirmation of this candidate
                r = dict(r, status="other-failure")
                last = r
            if r["status"] == "violated":
                confirmed.append(dict(candidate=name, witness=_jsonable(m), failed=r["failed"], tags=r["tags"],
                                      observed=_jsonable(r.get("observed", {}))))
                done = True
                break
        if not done:
            unconfirmed.append(dict(candidate=name, tried=tried, nmodels=len(models),
                                    last=_jsonable(last) if last else None,
                                    exc=st.get("exc_detail", {}).get(name)))
    # ---- model validation by seeded samples (never decides the property)
    rng = random.Random(hash((seed, hname, json.dumps(cfg, sort_keys=True))) & 0xFFFFFFFF)
    val = dict(samples=0, real_ok=0, exact_ok=0, mismatches=[])
    attempts = 0
    while not confirmed and val["samples"] < T["nsamples"] and attempts < 40 * T["nsamples"]:
        attempts += 1
        w = h.sample(cfg, rng)
        if w is None:
            break
        w = {k: F(v).limit_denominator(1 << 20) if not isinstance(v, F) else v for k, v in w.items()}
        r = _float_replay(h, cfg, w)
        if r["status"] == "rejected":
            continue
        val["samples"] += 1
        if r["status"] == "ok":
            val["real_ok"] += 1
        elif r["status"] == "violated":
            # a sampled valid input fails the property on the installed package: a concrete, replayable violation
            # (found by the validation sampling, not by a solver verdict - the replay file says so)
            confirmed.append(dict(candidate="validation-sample on the real package (not a solver verdict)",
                                  witness=_jsonable(w), failed=r["failed"], tags=r["tags"],
                                  observed=_jsonable(r.get("observed", {}))))
            val["sample_violations"] = val.get("sample_violations", 0) + 1
            continue
        else:
            val["mismatches"].append(dict(kind="real-package run of a sampled valid input could not be evaluated",
                                          witness=_jsonable(w), result=_jsonable(r)))
            continue
        if h.exact_validation:
            x = _exact_run(h, cfg, L, w)
            if x["status"] == "ok":
                bad = _cmp_observed(r.get("observed", {}), x.get("observed", {}))
                if bad:
                    val["mismatches"].append(dict(kind="model/real observables differ", keys=bad, witness=_jsonable(w),
                                                  real={k: r["observed"].get(k) for k in bad},
                                                  model={k: x["observed"].get(k) for k in bad}))
                else:
                    val["exact_ok"] += 1
            elif x["status"] != "rejected":
                val["mismatches"].append(dict(kind="exact-mode run disagrees with real run", witness=_jsonable(w),
                                              result=_jsonable(x)))
    out = dict(harness=hname, cfg=cfg, paths=st["paths"], completed=st["completed"], infeasible=st["infeasible"],
               inconclusive=st["inconclusive"], out_of_bound=st["out_of_bound"], unsupported=st["unsupported"],
               unknown_branches=st["unknown_branches"], truncated=st["truncated"], pending=st.get("pending", 0),
               queries=st["queries"], solver_s=round(st["solver_s"], 3), obligations=by_name, covers=st["covers"],
               assumptions=st["assumptions"], notes=st["notes"], sample_paths=st["sample_paths"],
               confirmed=confirmed, unconfirmed=unconfirmed, validation=val, hashes=L.hashes,
               functions=loader.functions_encoded(), wall_s=round(time.time() - t0, 2),
               n_exceptions=len(st["exceptions"]), xcheck=xc)
    return out


# ------------------------------------------------------------------ property level

def load_known():
    p = os.path.join(VERIF, "known_findings.json")
    if not os.path.exists(p):
        return []
    return json.load(open(p)).get("findings", [])


def match_known(known, prop, harness, viol):
    """a confirmed violation is covered by a listed finding iff property, harness pattern, failed-name
    pattern and the classifier tag (computed by the harness oracle on the replayed witness) all match"""
    names = [f["name"] for f in viol["failed"]]
    for k in known:
        if k.get("status", "open") != "open":
            continue  # fixed entries suppress nothing
        if k["property"] != prop:
            continue
        if not re.fullmatch(k.get("harness", ".*"), harness):
            continue
        if k.get("classifier") and k["classifier"] not in viol.get("tags", []):
            continue
        pat = k.get("failed", ".*")
        if all(re.fullmatch(pat, n) for n in names):
            return k
    return None


class _NoDaemonProcess(mp.context.ForkProcess):
    """worker that may itself start processes (float replays of C15 use the real ProcessPoolExecutor)"""

    @property
    def daemon(self):
        return False

    @daemon.setter
    def daemon(self, value):
        pass


class _NoDaemonContext(type(mp.get_context("fork"))):
    Process = _NoDaemonProcess


class _NestablePool(mp.pool.Pool):
    def __init__(self, *a, **k):
        k["context"] = _NoDaemonContext()
        super().__init__(*a, **k)


def run_property(prop, harness_specs, tier, seed, level_note="", only=None, jobs=None):
    """harness_specs: list of (module name, class name)"""
    import importlib
    t0 = time.time()
    tasks = []
    meta = {}
    for hmod, hname in harness_specs:
        if only and hname not in only:
            continue
        h = getattr(importlib.import_module(hmod), hname)()
        meta[hname] = h
        for cfg in h.configs(tier):
            m = os.environ.get("VERIF_MATCH")      # experiments only: restrict to configurations containing a substring
            if m and m not in json.dumps(cfg):
                continue
            tasks.append((hmod, hname, cfg, tier, seed))
    tasks.sort(key=lambda t: -meta[t[1]].cost * float(t[2].get("_cost", 1)))
    jobs = jobs or min(16, os.cpu_count() or 4, max(1, len(tasks)))
    results = []
    with _NestablePool(jobs, maxtasksperchild=4) as pool:
        for r in pool.imap_unordered(run_task, tasks, chunksize=1):
            results.append(r)
    results.sort(key=lambda r: (r["harness"], json.dumps(r["cfg"], sort_keys=True)))
    return finish(prop, results, meta, tier, seed, t0)


def finish(prop, results, meta, tier, seed, t0):
    known = load_known()
    lines, violations, known_hits, harness_errors = [], [], {}, []
    tot = dict(paths=0, completed=0, infeasible=0, inconclusive=0, out_of_bound=0, unsupported=0, queries=0,
               solver_s=0.0, obligations=0, discharged=0, by_rewriter=0, unknown=0, sat=0, truncated=0,
               val_samples=0, val_real_ok=0, val_exact_ok=0, tasks=len(results), unknown_branches=0)
    functions, hashes, assumptions, covers_unmet, samples = set(), {}, [], [], []
    per_harness = {}
    xtot = dict(offered=0, sampled=0, not_run=0, z3_4_8_12=dict(unsat=0, sat=0, unknown=0),
                cvc5_1_0=dict(unsat=0, sat=0, unknown=0), by_stage={})
    if os.environ.get("VERIF_VERBOSE"):
        for r in results:
            if "infra_error" not in r:
                unk = {k: v for k, v in r["obligations"].items() if v["unknown"] or v["sat"]}
                print(f"TASK {r['harness']} {json.dumps(r['cfg'])} paths={r['paths']} wall={r['wall_s']} "
                      f"solver={r['solver_s']} q={r['queries']} trunc={r['truncated']} inconcl={r['inconclusive']} "
                      f"notes={r['notes'][:2]} open={json.dumps(unk)[:300]}")
    for r in results:
        if "infra_error" in r:
            harness_errors.append(f"{r['harness']} {r['cfg']}: {r['infra_error']}\n{r.get('tb', '')}")
            continue
        ph = per_harness.setdefault(r["harness"], dict(tasks=0, paths=0, obligations=0, discharged=0, wall_s=0.0,
                                                       covers={}, names=set()))
        ph["tasks"] += 1
        ph["paths"] += r["paths"]
        ph["wall_s"] += r["wall_s"]
        for k in ("paths", "completed", "infeasible", "inconclusive", "out_of_bound", "unsupported", "queries",
                  "solver_s", "unknown_branches"):
            tot[k] += r[k]
        tot["truncated"] += 1 if r["truncated"] else 0
        for name, d in r["obligations"].items():
            n = d["unsat"] + d["sat"] + d["unknown"]
            tot["obligations"] += n
            tot["discharged"] += d["unsat"]
            tot["by_rewriter"] += d["rewriter"]
            tot["unknown"] += d["unknown"]
            tot["sat"] += d["sat"]
            ph["obligations"] += n
            ph["discharged"] += d["unsat"]
            ph["names"].add(name)
        for k, v in r["covers"].items():
            ph["covers"][k] = ph["covers"].get(k, False) or v
        functions.update(r["functions"])
        hashes.update(r["hashes"])
        for a in r["assumptions"]:
            if a not in assumptions:
                assumptions.append(a)
        xc = r.get("xcheck") or {}
        for k in ("offered", "sampled", "not_run"):
            xtot[k] += xc.get(k, 0)
        for sv in ("z3_4_8_12", "cvc5_1_0"):
            for k, n in (xc.get(sv) or {}).items():
                xtot[sv][k] += n
        for k, n in (xc.get("by_stage") or {}).items():
            xtot["by_stage"][k] = xtot["by_stage"].get(k, 0) + n
        for dis in xc.get("disagreements", []):
            harness_errors.append(f"solver disagreement in {r['harness']} {r['cfg']}: {dis['solver']} answers sat on a "
                                  f"query z3 {_z3v()} decided unsat (stage {dis['stage']}); query saved as {dis['query']}")
        v = r["validation"]
        tot["val_samples"] += v["samples"]
        tot["val_real_ok"] += v["real_ok"]
        tot["val_exact_ok"] += v["exact_ok"]
        for mm in v["mismatches"]:
            harness_errors.append(f"model validation mismatch in {r['harness']} {r['cfg']}: {json.dumps(mm)[:1500]}")
        if r["completed"] == 0 and not r["confirmed"] and not r["n_exceptions"]:
            harness_errors.append(f"vacuous: no completed path in {r['harness']} {r['cfg']} notes={r['notes'][:3]}")
        for u in r["unconfirmed"]:
            harness_errors.append(f"unconfirmed candidate {u['candidate']} in {r['harness']} {r['cfg']}: "
                                  f"{json.dumps(u)[:1200]}")
        for c in r["confirmed"]:
            k = match_known(known, prop, r["harness"], c)
            if k is not None:
                known_hits.setdefault(k["id"], dict(entry=k, count=0, example=None))
                known_hits[k["id"]]["count"] += 1
                known_hits[k["id"]]["example"] = known_hits[k["id"]]["example"] or dict(harness=r["harness"],
                                                                                     cfg=r["cfg"], **c)
            else:
                violations.append(dict(harness=r["harness"], cfg=r["cfg"], **c))
        if len(samples) < 6 and r["sample_paths"]:
            samples.append(dict(harness=r["harness"], cfg=r["cfg"], path=r["sample_paths"][0],
                                obligations={k: v for k, v in list(r["obligations"].items())[:8]}))
    for hn, ph in per_harness.items():
        for k, v in ph["covers"].items():
            if not v:
                covers_unmet.append(f"{hn}: {k}")
    for c in covers_unmet:
        harness_errors.append(f"cover goal never satisfiable: {c}")
    # ---- report
    os.makedirs(os.path.join(OUT, "replays"), exist_ok=True)
    exit_code = 0
    for kid, hit in known_hits.items():
        print(f"KNOWN-FINDING: property={prop} {kid}: {hit['entry']['what']} ({hit['count']} witness(es), e.g. "
              f"{json.dumps(hit['example']['witness'])[:200]})")
    seen_v = set()
    for v in violations:
        key = (v["harness"], json.dumps(v["cfg"], sort_keys=True), v["failed"][0]["name"])
        if key in seen_v:
            continue
        seen_v.add(key)
        blob = json.dumps(dict(property=prop, harness=v["harness"], cfg=v["cfg"], witness=v["witness"],
                               failed=v["failed"], tags=v["tags"], candidate=v["candidate"],
                               observed=v.get("observed"), hashes=hashes), indent=1, sort_keys=True)
        hid = hashlib.sha256(blob.encode()).hexdigest()[:12]
        path = os.path.join(OUT, "replays", f"{prop}-{hid}.json")
        with open(path, "w") as fp:
            fp.write(blob)
        exit_code = 1
        if len(seen_v) > 6:
            continue
        print(f"VIOLATION property={prop} replay={path}")
        print(f"  harness={v['harness']} cfg={json.dumps(v['cfg'])} failed={[f['name'] for f in v['failed']][:4]} "
              f"witness={json.dumps(v['witness'])[:300]}")
        exit_code = 1
    if len(seen_v) > 6:
        print(f"... {len(seen_v) - 6} further violating (harness, configuration, obligation) combinations; replay "
              f"files written under {os.path.join(OUT, 'replays')}")
    if harness_errors and exit_code == 0:
        exit_code = 2
    for e in harness_errors[:40]:
        print("HARNESS-ERROR:", e[:2500])
    incomplete = tot["truncated"] or tot["inconclusive"] or tot["unknown"] or tot["out_of_bound"] \
        or tot["unsupported"] or tot["unknown_branches"]
    if incomplete:
        print(f"NOTE: incomplete exploration: truncated_tasks={tot['truncated']} inconclusive_paths="
              f"{tot['inconclusive']} unknown_obligations={tot['unknown']} out_of_bound={tot['out_of_bound']} "
              f"unsupported={tot['unsupported']} unknown_branches={tot['unknown_branches']}")
    wall = time.time() - t0
    nontrivial = sum(len(ph["names"]) for ph in per_harness.values())
    ev = dict(
        property_id=prop, tier=tier, seed=int(seed), level="other", wall_s=round(wall, 2),
        violations=len(seen_v),
        coverage=dict(
            explanation=("bounded symbolic execution of the repository source (text of /repo/droplets loaded by "
                         "symx.loader and run on symbolic reals), every obligation decided by z3 over all values "
                         "of the symbolic inputs on every explored path; candidates replayed on the installed "
                         "package before being reported"),
            evaluations=tot["paths"], distinct_nontrivial=max(nontrivial, 0),
            rule=("one evaluation = one feasible execution path of a harness body (decision prefix); "
                  "distinct_nontrivial = number of distinct obligation families (harness x obligation name) "
                  "that were decided at least once"),
            obligations=tot["obligations"], discharged=tot["discharged"], discharged_by_rewriter=tot["by_rewriter"],
            inconclusive_obligations=tot["unknown"], refuted_obligations=tot["sat"],
            paths=dict(explored=tot["paths"], completed=tot["completed"], infeasible=tot["infeasible"],
                       inconclusive=tot["inconclusive"], out_of_bound=tot["out_of_bound"],
                       unsupported=tot["unsupported"], truncated_tasks=tot["truncated"],
                       unknown_branches=tot["unknown_branches"]),
            exhaustive=not incomplete,
            queries=tot["queries"], solver_s=round(tot["solver_s"], 2), solver="z3 " + _z3v(),
            tasks=tot["tasks"],
            harnesses={hn: dict(tasks=ph["tasks"], paths=ph["paths"], obligations=ph["obligations"],
                                discharged=ph["discharged"], wall_s=round(ph["wall_s"], 1),
                                bounds=meta[hn].bounds, stubs=meta[hn].stubs,
                                cover_goals=ph["covers"], obligation_names=sorted(ph["names"])[:60])
                       for hn, ph in per_harness.items()},
            functions_encoded=sorted(functions), source_sha256=hashes,
            model_validation=dict(samples=tot["val_samples"], real_package_ok=tot["val_real_ok"],
                                  model_vs_real_observables_equal=tot["val_exact_ok"]),
            second_solver_crosscheck=dict(
                what=("deterministic per-task sample of the queries the deciding solver answered `unsat` (held "
                      "obligations and pruned branches), exported as SMT-LIB2 and re-decided by the z3 4.8.12 and cvc5 "
                      "1.0 binaries; `sat` from either is a harness error, `unknown`/time-out is not agreement"),
                unsat_verdicts_offered=xtot["offered"], sampled=xtot["sampled"], not_run=xtot["not_run"],
                by_stage=xtot["by_stage"], z3_4_8_12=xtot["z3_4_8_12"], cvc5_1_0=xtot["cvc5_1_0"]),
            known_findings_hit=[dict(id=k, count=v["count"]) for k, v in known_hits.items()],
            harness_errors=harness_errors[:20],
            samples=samples or [dict(note="no completed path")],
        ),
        assumptions=assumptions + [
            "exact real arithmetic (floating-point rounding is outside the claim)",
            "np.pi is a symbol with 3.14159 < PI < 3.1416",
            "numba compilation is trusted (decorators are the identity; the Python source is what is encoded)",
        ] + sorted({s for h in meta.values() for s in h.stubs}),
    )
    os.makedirs(os.path.join(OUT, "evidence"), exist_ok=True)
    with open(os.path.join(OUT, "evidence", f"{prop}.json"), "w") as fp:
        json.dump(ev, fp, indent=1, sort_keys=True)
    print(f"{prop} tier={tier}: tasks={tot['tasks']} paths={tot['paths']} obligations={tot['obligations']} "
          f"discharged={tot['discharged']} refuted={tot['sat']} inconclusive={tot['unknown']} queries={tot['queries']} "
          f"solver_s={tot['solver_s']:.1f} wall_s={wall:.1f} exit={exit_code}")
    print(f"  second-solver cross-check of {xtot['sampled'] - xtot['not_run']} sampled unsat verdicts: z3-4.8.12 "
          f"{xtot['z3_4_8_12']}  cvc5-1.0 {xtot['cvc5_1_0']}")
    return exit_code


def _z3v():
    try:
        import z3
        return z3.get_version_string()
    except Exception:
        return "?"


def replay_file(path, registry):
    import importlib
    d = json.load(open(path))
    hmod, hname = registry[d["property"]][d["harness"]]
    h = getattr(importlib.import_module(hmod), hname)()
    r = _float_replay(h, d["cfg"], _unfrac(d["witness"]))
    print(json.dumps(_jsonable(r), indent=1)[:4000])
    if r["status"] == "violated":
        print(f"VIOLATION property={d['property']} replay={path}")
        return 1
    return 0
