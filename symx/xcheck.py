"""Second-opinion check of the deciding solver.

Every "held" verdict of SYMX is an `unsat` answer of z3 5.1 (python wheel) and so is every pruned branch.
A deterministic sample of those queries per task (reservoir, seeded by the task) is written out as
SMT-LIB2 and re-decided by two independent solver builds: the z3 4.8.12 binary (/usr/bin/z3; same
family, seven-year-older code base and a different nonlinear core) and the cvc5 1.0 binary (independent
implementation, cylindrical algebraic coverings).  A `sat` answer of either on a query the deciding solver
called `unsat` is a harness error (exit 2, the query is saved); `unknown`/time-out is counted and
reported in the evidence, never treated as agreement."""
from __future__ import annotations

import os
import random
import shutil
import subprocess
import tempfile
import time

import z3

Z3_OLD = "/usr/bin/z3"
CVC5 = shutil.which("cvc5") or "/usr/bin/cvc5"


class Reservoir:
    def __init__(self, k, seed):
        self.k = k
        self.rng = random.Random(seed)
        self.n = 0
        self.items: list = []

    def offer(self, cons, neg, how):
        self.n += 1
        item = (list(cons), neg, how)
        if len(self.items) < self.k:
            self.items.append(item)
        else:
            j = self.rng.randrange(self.n)
            if j < self.k:
                self.items[j] = item


RES: Reservoir | None = None


def offer(cons, neg, how):
    if RES is not None:
        RES.offer(cons, neg, how)


def _smt2(cons, neg):
    s = z3.Solver()
    s.add(*cons)
    if neg is not None:
        s.add(neg)
    return s.to_smt2()


def _run(cmd, timeout_s):
    try:
        p = subprocess.run(cmd, capture_output=True, text=True, timeout=timeout_s + 2)
    except subprocess.TimeoutExpired:
        return "timeout"
    out = p.stdout.strip().splitlines()
    if any("(error" in ln for ln in out) or not out:
        return "error"
    first = out[0].strip()
    return first if first in ("sat", "unsat", "unknown", "timeout") else "error"


def run(res: Reservoir, per_query_s=5, wall_budget_s=30, save_dir=None):
    """re-decide the sampled `unsat` queries; returns a summary dict"""
    summ = dict(offered=res.n, sampled=len(res.items), per_query_timeout_s=per_query_s,
                z3_4_8_12=dict(unsat=0, sat=0, unknown=0), cvc5_1_0=dict(unsat=0, sat=0, unknown=0),
                not_run=0, by_stage={}, disagreements=[])
    if not res.items:
        return summ
    have_z3 = os.path.exists(Z3_OLD)
    have_cvc5 = os.path.exists(CVC5)
    d = tempfile.mkdtemp(prefix="symx-xc-")
    t0 = time.time()
    try:
        for i, (cons, neg, how) in enumerate(res.items):
            if time.time() - t0 > wall_budget_s:
                summ["not_run"] += 1
                continue
            try:
                text = _smt2(cons, neg)
            except z3.Z3Exception:
                summ["not_run"] += 1
                continue
            if len(text) > 400_000:
                summ["not_run"] += 1
                continue
            summ["by_stage"][how] = summ["by_stage"].get(how, 0) + 1
            f = os.path.join(d, f"q{i}.smt2")
            with open(f, "w") as fp:
                fp.write(text)
            fc = os.path.join(d, f"q{i}c.smt2")
            with open(fc, "w") as fp:
                fp.write("(set-logic ALL)\n" + text)
            answers = {}
            if have_z3:
                answers["z3_4_8_12"] = _run([Z3_OLD, f"-T:{per_query_s}", f], per_query_s)
            if have_cvc5:
                answers["cvc5_1_0"] = _run([CVC5, f"--tlimit={per_query_s * 1000}", fc], per_query_s)
            for k, a in answers.items():
                summ[k][a if a in ("sat", "unsat") else "unknown"] += 1
                if a == "sat":
                    keep = None
                    if save_dir:
                        os.makedirs(save_dir, exist_ok=True)
                        keep = os.path.join(save_dir, f"xcheck-{os.getpid()}-{i}.smt2")
                        shutil.copy(f, keep)
                    summ["disagreements"].append(dict(solver=k, stage=how, query=keep))
    finally:
        shutil.rmtree(d, ignore_errors=True)
    summ["wall_s"] = round(time.time() - t0, 2)
    return summ
