"""Loads the text of $VERIF_REPO/droplets/**/*.py (default /repo) into fresh module objects whose
imports resolve to SYMX shims/models.  The source is executed as is, after two AST
normalisations:  literal/literal divisions become exact rationals (CPython would fold them
to rounded doubles before any symbolic value exists) and `X.astype(T)` becomes
`__symx_astype__(X, T)` (object arrays of symbolic reals cannot be cast by numpy)."""
from __future__ import annotations

import ast
import builtins
import hashlib
import os
import sys
import types
from fractions import Fraction as F

from . import core, npshim, records
from .core import SR
from .models import fields as m_fields
from .models import grids as m_grids
from .models import ndimage as m_ndimage
from .models import pdefuncs as m_pde
from .models import spatial as m_spatial


def repo_root():
    return os.environ.get("VERIF_REPO", "/repo")


def _mk(name, **kw):
    m = types.ModuleType(name)
    m.__dict__.update(kw)
    return m


class _Unmodelled:
    def __init__(self, name, **modelled):
        self._name = name
        self.__dict__.update(modelled)

    def __getattr__(self, k):
        raise core.Abort("unsupported", f"unmodelled dependency {self._name}.{k}")

    def __call__(self, *a, **k):
        raise core.Abort("unsupported", f"unmodelled dependency {self._name}")


def build_fake_modules(overrides=None):
    from .models import optimize as m_opt, special as m_special, h5store, executor, integrate as m_int
    np_ = npshim.symnp
    scipy = _mk("scipy", ndimage=m_ndimage, optimize=m_opt, integrate=_Unmodelled("scipy.integrate", dblquad=m_int.dblquad),
                spatial=m_spatial, special=m_special)
    fake = {
        "numpy": np_,
        "numpy.lib": _mk("numpy.lib", recfunctions=records.rfn_module),
        "numpy.lib.recfunctions": records.rfn_module,
        "numpy.typing": _mk("numpy.typing", DTypeLike=object),
        "numpy.fft": None,  # filled lazily below
        "numba": _mk("numba", types=_mk("nbtypes", Array=type("Array", (), {}))),
        "numba.extending": _mk("numba.extending", register_jitable=m_pde.ident, overload=m_pde.overload),
        "scipy": scipy,
        "scipy.ndimage": m_ndimage,
        "scipy.optimize": m_opt,
        "scipy.integrate": scipy.integrate,
        "scipy.spatial": m_spatial,
        "scipy.spatial.distance": m_spatial.distance,
        "scipy.special": m_special,
        "pde": _mk("pde"),
        "pde.fields": _mk("pde.fields", ScalarField=m_fields.ScalarField),
        "pde.fields.base": _mk("pde.fields.base", FieldBase=m_fields.FieldBase),
        "pde.grids": _mk("pde.grids", CartesianGrid=m_grids.CartesianGrid, UnitGrid=m_grids.UnitGrid,
                         CylindricalSymGrid=m_grids.CylindricalSymGrid, PolarSymGrid=m_grids.PolarSymGrid,
                         SphericalSymGrid=m_grids.SphericalSymGrid),
        "pde.grids.base": _mk("pde.grids.base", GridBase=m_grids.GridBase, DimensionError=m_grids.DimensionError),
        "pde.grids.cartesian": _mk("pde.grids.cartesian", CartesianGrid=m_grids.CartesianGrid),
        "pde.grids.spherical": _mk("pde.grids.spherical", volume_from_radius=m_pde.volume_from_radius,
                                   SphericalSymGridBase=m_grids.SphericalSymGridBase),
        "pde.tools": _mk("pde.tools"),
        "pde.tools.numba": _mk("pde.tools.numba", jit=m_pde.ident),
        "pde.tools.cuboid": _mk("pde.tools.cuboid", Cuboid=m_grids.Cuboid),
        "pde.tools.plotting": _mk("pde.tools.plotting", PlotReference=m_pde.PlotReference,
                                  plot_on_axes=m_pde.plot_on_axes),
        "pde.tools.misc": _mk("pde.tools.misc", number_array=m_pde.number_array),
        "pde.tools.math": _mk("pde.tools.math", SmoothData1D=None),
        "pde.tools.typing": _mk("pde.tools.typing", NumberOrArray=object),
        "pde.tools.docstrings": _mk("pde.tools.docstrings", fill_in_docstring=m_pde.fill_in_docstring),
        "pde.tools.output": _mk("pde.tools.output", display_progress=m_pde.display_progress),
        "pde.storage": _mk("pde.storage"),
        "pde.storage.base": _mk("pde.storage.base", StorageBase=object),
        "pde.trackers": _mk("pde.trackers"),
        "pde.trackers.base": None,
        "pde.visualization": _mk("pde.visualization"),
        "pde.visualization.plotting": _mk("pde.visualization.plotting", extract_field=m_fields.extract_field),
        "h5py": h5store.module,
        "concurrent": _mk("concurrent"),
        "concurrent.futures": executor.module,
    }
    from .models import trackerbase, smooth, fft
    fake["pde.trackers.base"] = trackerbase.module
    fake["pde.tools.math"] = _mk("pde.tools.math", SmoothData1D=smooth.SmoothData1D)
    fake["numpy.fft"] = fft
    if overrides:
        fake.update(overrides)
    return fake


class _Lift(ast.NodeTransformer):
    def visit_BinOp(self, node):
        self.generic_visit(node)
        if (isinstance(node.op, ast.Div) and isinstance(node.left, ast.Constant)
                and isinstance(node.right, ast.Constant)
                and type(node.left.value) in (int, float) and type(node.right.value) in (int, float)
                and node.right.value != 0):
            return ast.copy_location(
                ast.Call(ast.Name("__symx_ratio__", ast.Load()), [node.left, node.right], []), node)
        return node

    def visit_Call(self, node):
        self.generic_visit(node)
        if isinstance(node.func, ast.Attribute) and node.func.attr == "astype":
            return ast.copy_location(
                ast.Call(ast.Name("__symx_astype__", ast.Load()), [node.func.value] + node.args, node.keywords),
                node)
        return node


class Loaded:
    """one independent load of the package"""

    def __init__(self, overrides=None):
        self.root = repo_root()
        self.modules: dict[str, types.ModuleType] = {}
        self.hashes: dict[str, str] = {}
        self.fake = build_fake_modules(overrides)
        self.builtins = dict(builtins.__dict__)
        self.builtins["__import__"] = self._imp
        self.builtins["float"] = npshim.SFloat
        self.builtins["int"] = npshim.SInt
        self.builtins["__symx_ratio__"] = lambda a, c: SR(F(a) / F(c))
        self.builtins["__symx_astype__"] = npshim.astype
        self.builtins["abs"] = _abs
        self.builtins["sum"] = _sum
        self.builtins["min"] = _min
        self.builtins["max"] = _max
        self.builtins["round"] = _round

    def _path(self, modname):
        p = os.path.join(self.root, *modname.split("."))
        if os.path.isdir(p):
            return os.path.join(p, "__init__.py"), modname
        return p + ".py", modname.rsplit(".", 1)[0]

    def _imp(self, name, globals=None, locals=None, fromlist=(), level=0):
        if (globals is None or not str(globals.get("__name__", "")).startswith("droplets")
                or name.startswith(("numpy._", "numpy.core", "numpy.lib._", "scipy._"))):
            # import issued from library internals (e.g. numpy's lazy C-level imports), not by the code under test
            return builtins.__import__(name, globals, locals, fromlist, level)
        if level > 0:
            base = globals["__package__"].split(".")
            base = base[: len(base) - (level - 1)]
            full = ".".join(base + ([name] if name else []))
            m = self.load(full)
            for f in fromlist or ():
                if not hasattr(m, f):
                    try:
                        setattr(m, f, self.load(full + "." + f))
                    except FileNotFoundError:
                        pass
            return m
        if name == "droplets" or name.startswith("droplets."):
            m = self.load(name)
            return m if fromlist else self.load("droplets")
        if name in self.fake:
            m = self.fake[name]
            if m is None:
                raise ImportError(f"No module named {name!r} (SYMX: not provided)")
            if not fromlist and "." in name:
                return self.fake[name.split(".")[0]]
            return m
        top = name.split(".")[0]
        if top in ("pyfftw", "modelrunner"):
            raise ImportError(f"No module named {name!r}")
        if top in ("pde", "scipy", "numba", "numpy", "h5py", "matplotlib", "concurrent", "multiprocessing"):
            raise ImportError(f"SYMX: import of {name} is not modelled (code not encodable)")
        return builtins.__import__(name, globals, locals, fromlist, level)

    def load(self, modname):
        if modname in self.modules:
            return self.modules[modname]
        path, pkg = self._path(modname)
        if not os.path.exists(path):
            raise FileNotFoundError(path)
        mod = types.ModuleType(modname)
        mod.__file__ = path
        mod.__package__ = pkg
        mod.__name__ = modname
        self.modules[modname] = mod
        src = open(path, encoding="utf-8").read()
        self.hashes[os.path.relpath(path, self.root)] = hashlib.sha256(src.encode()).hexdigest()
        tree = ast.parse(src, path)
        tree = ast.fix_missing_locations(_Lift().visit(tree))
        mod.__dict__["__builtins__"] = self.builtins
        try:
            exec(compile(tree, path, "exec"), mod.__dict__)
        except BaseException:
            self.modules.pop(modname, None)
            raise
        return mod


def _abs(x):
    return builtins.abs(x)


def _sum(it, start=0):
    r = start
    for x in it:
        r = r + x
    return r


def _min(*a, **k):
    if len(a) == 1:
        a = list(a[0])
    if k.get("key") is not None or not any(isinstance(x, SR) for x in a):
        return builtins.min(a, **k) if a or "default" not in k else k["default"]
    r = a[0]
    for x in a[1:]:
        if x < r:
            r = x
    return r


def _max(*a, **k):
    if len(a) == 1:
        a = list(a[0])
    if k.get("key") is not None or not any(isinstance(x, SR) for x in a):
        return builtins.max(a, **k) if a or "default" not in k else k["default"]
    r = a[0]
    for x in a[1:]:
        if x > r:
            r = x
    return r


def _round(x, n=None):
    if isinstance(x, SR):
        if x.is_conc:
            return builtins.round(x.v, n) if n is not None else builtins.round(x.v)
        if n is None:
            return int(x.rint().v)        # builtin round(x): nearest integer, ties to even
        raise core.Abort("unsupported", "round(x, n) of a symbolic value")
    return builtins.round(x, n) if n is not None else builtins.round(x)


# ---------------------------------------------------------------- functions-encoded monitor

_seen_functions: set = set()
_TOOL = 3


def start_monitor():
    mon = sys.monitoring
    try:
        mon.use_tool_id(_TOOL, "symx")
    except ValueError:
        return
    root = repo_root()

    def on_start(code, off):
        if code.co_filename.startswith(root):
            _seen_functions.add(f"{os.path.relpath(code.co_filename, root)}:{code.co_qualname}")
        return mon.DISABLE

    mon.register_callback(_TOOL, mon.events.PY_START, on_start)
    mon.set_events(_TOOL, mon.events.PY_START)


def functions_encoded():
    return sorted(f for f in _seen_functions if "<module>" not in f)
