"""numpy as seen by the code under test.

Everything not listed here is the real numpy.  Real numpy *object arrays* carry SR scalars;
ufuncs on object arrays call the same-named method of the elements, which is how symbolic
values and abstractions flow through unmodified library code.  Only array creation,
a few predicates/reductions and the structured-record machinery are overridden.
"""
from __future__ import annotations

import builtins
import math
import types
from fractions import Fraction as F

import numpy as _np
import z3

from . import core
from .core import SB, SR, conc, is_special


# --------------------------------------------------------------------------- float / int builtins

class _FloatMeta(type):
    def __instancecheck__(cls, inst):
        return isinstance(inst, (float, SR))

    def __subclasscheck__(cls, sub):
        return issubclass(sub, float)


class SFloat(float, metaclass=_FloatMeta):
    """`float` inside the code under test: passes symbolic reals through"""

    def __new__(cls, x=0.0):
        if isinstance(x, SR):
            return x
        if isinstance(x, _np.ndarray) and x.dtype == object:
            if x.size != 1:
                raise TypeError("only length-1 arrays can be converted to Python scalars")
            return SFloat(x.reshape(-1)[0])
        if isinstance(x, SB):
            return float(x)
        return float(x)


class _IntMeta(type):
    def __instancecheck__(cls, inst):
        return isinstance(inst, int)

    def __subclasscheck__(cls, sub):
        return issubclass(sub, int)


class SInt(int, metaclass=_IntMeta):
    """`int` inside the code under test: forks on the integer part of a symbolic real"""

    def __new__(cls, x=0, *a):
        if isinstance(x, SR):
            return core.sym_int(x)
        if isinstance(x, _np.ndarray) and x.dtype == object and x.size == 1:
            return SInt(x.reshape(-1)[0])
        return int(x, *a)


def _is_float_dtype(dtype):
    if dtype is None:
        return True
    if dtype in (float, SFloat, _np.double, _np.float64, "f8", "float", "double"):
        return True
    try:
        return _np.dtype(dtype).kind == "f"
    except TypeError:
        return False


# --------------------------------------------------------------------------- object arrays

def lift(v):
    """scalar -> SR (keeps inf/nan floats and non-numeric objects)"""
    if isinstance(v, (SR, SB)):
        return v
    c = conc(v)
    if c is None or is_special(c):
        return v
    return SR(c)


def objarr(x, shape=None):
    """object ndarray of SR (deep conversion of nested sequences / arrays)"""
    if isinstance(x, _np.ndarray):
        src = x
    else:
        src = _to_obj_nd(x)
    out = _np.empty(src.shape, dtype=object)
    flat_in = src.reshape(-1) if src.size else []
    flat_out = out.reshape(-1)
    for i, v in enumerate(flat_in):
        flat_out[i] = lift(v)
    return out


def _to_obj_nd(x):
    if isinstance(x, (SR, SB, F)) or _np.isscalar(x) or x is None:
        a = _np.empty((), dtype=object)
        a[()] = x
        return a
    if isinstance(x, _np.ndarray):
        return x
    items = [_to_obj_nd(e) for e in x]
    if not items:
        return _np.empty((0,), dtype=object)
    shp = items[0].shape
    if any(i.shape != shp for i in items):
        raise ValueError("inhomogeneous shape")
    out = _np.empty((len(items),) + shp, dtype=object)
    for k, it in enumerate(items):
        if shp == ():
            out[k] = it[()]
        else:
            out[k] = it
    return out


def has_sym(x, depth=0):
    if isinstance(x, (SR, SB, F)):
        return True
    if isinstance(x, _np.ndarray):
        return x.dtype == object
    if isinstance(x, (list, tuple)) and depth < 6:
        return any(has_sym(e, depth + 1) for e in x)
    return False


def astype(x, dtype, **kw):
    """replacement for x.astype(dtype) (installed by the loader's AST normalisation)"""
    if not isinstance(x, _np.ndarray):
        return x.astype(dtype, **kw)
    if x.dtype != object:
        if _is_float_dtype(dtype) and dtype is not None:
            return objarr(x.astype(float))
        if dtype in (bool, _np.bool_):
            return x.astype(bool)
        return x.astype(dtype, **kw)
    if dtype in (bool, _np.bool_):
        out = _np.empty(x.shape, dtype=bool)
        fo, fi = out.reshape(-1), x.reshape(-1)
        for i in range(fi.size):
            fo[i] = bool(fi[i])
        return out
    if _is_float_dtype(dtype):
        out = _np.empty(x.shape, dtype=object)
        fo, fi = out.reshape(-1), x.reshape(-1)
        for i in range(fi.size):
            v = fi[i]
            if isinstance(v, SB):
                v = SR(F(1)) if bool(v) else SR(F(0))
            elif isinstance(v, (bool, _np.bool_)):
                v = SR(F(int(v)))
            fo[i] = lift(v)
        return out
    if dtype in (int, SInt, _np.intc, _np.int64):
        out = _np.empty(x.shape, dtype=int)
        fo, fi = out.reshape(-1), x.reshape(-1)
        for i in range(fi.size):
            fo[i] = SInt(fi[i]) if not isinstance(fi[i], SB) else int(fi[i])
        return out
    return x.astype(dtype, **kw)


def _map(x, fn):
    if isinstance(x, _np.ndarray):
        out = _np.empty(x.shape, dtype=object)
        fo, fi = out.reshape(-1), x.reshape(-1)
        for i in range(fi.size):
            fo[i] = fn(fi[i])
        return out
    return fn(x)


def _call(name, realfn):
    def f(x, *a, **k):
        if isinstance(x, SR):
            return getattr(x, name)(*a)
        if isinstance(x, _np.ndarray) and x.dtype == object:
            if a:
                b = _np.broadcast_to(_np.asarray(a[0], dtype=object), x.shape)
                out = _np.empty(x.shape, dtype=object)
                fo, fi, fb = out.reshape(-1), x.reshape(-1), b.reshape(-1)
                for i in range(fi.size):
                    fo[i] = getattr(lift(fi[i]), name)(fb[i])
                return out
            return _map(x, lambda v: getattr(lift(v), name)() if isinstance(lift(v), SR) else realfn(v))
        if a and has_sym(a[0]):
            return f(objarr(_np.broadcast_to(_np.asarray(x, dtype=object), _np.shape(a[0]))) if _np.ndim(a[0]) else SR(x),
                     *a, **k)
        return realfn(x, *a, **k)

    f.__name__ = name
    return f


class _Linalg:
    def __getattr__(self, name):
        return getattr(_np.linalg, name)

    @staticmethod
    def norm(x, ord=None, axis=None):
        x = x if isinstance(x, _np.ndarray) else _np.asarray(_to_obj_nd(x) if has_sym(x) else x)
        if x.dtype != object:
            return _np.linalg.norm(x, ord=ord, axis=axis)
        if x.ndim >= 1 and x.shape[axis if axis is not None else 0] == 1 and (axis is not None or x.ndim == 1):
            # |v| for one-component vectors (exactly sqrt(v*v); keeps 1-d problems linear)
            one = _np.take(x, 0, axis=axis if axis is not None else 0)
            if isinstance(one, _np.ndarray):
                return _map(one, lambda v: abs(lift(v)))
            return abs(lift(one))
        sq = (x * x).sum(axis=axis)
        if isinstance(sq, _np.ndarray):
            return _map(sq, lambda v: lift(v).sqrt())
        return lift(sq).sqrt()


def _isnan(x):
    if isinstance(x, SR):
        return False
    if isinstance(x, _np.ndarray) and x.dtype == object:
        out = _np.empty(x.shape, dtype=bool)
        fo, fi = out.reshape(-1), x.reshape(-1)
        for i in range(fi.size):
            v = fi[i]
            fo[i] = isinstance(v, float) and math.isnan(v)
        return out if x.ndim else bool(out[()])
    return _np.isnan(x)


def _isinf(x):
    if isinstance(x, SR):
        return False
    if isinstance(x, _np.ndarray) and x.dtype == object:
        out = _np.empty(x.shape, dtype=bool)
        fo, fi = out.reshape(-1), x.reshape(-1)
        for i in range(fi.size):
            v = fi[i]
            fo[i] = isinstance(v, (float, _np.floating)) and math.isinf(v)
        return out if x.ndim else bool(out[()])
    return _np.isinf(x)


def _isfinite(x):
    if isinstance(x, SR):
        return True
    if isinstance(x, _np.ndarray) and x.dtype == object:
        return ~(_isnan(x) | _isinf(x))
    return _np.isfinite(x)


def _eq_elem(a, b, equal_nan):
    an = isinstance(a, float) and math.isnan(a)
    bn = isinstance(b, float) and math.isnan(b)
    if an or bn:
        return bool(an and bn and equal_nan)
    return lift(a) == lift(b)


def _allclose(a, b, rtol=1e-5, atol=1e-8, equal_nan=False):
    if not (has_sym(a) or has_sym(b)):
        return _np.allclose(a, b, rtol=rtol, atol=atol, equal_nan=equal_nan)
    a = _np.asarray(_to_obj_nd(a), dtype=object)
    b = _np.asarray(_to_obj_nd(b), dtype=object)
    a, b = _np.broadcast_arrays(a, b)
    conds = []
    for x, y in zip(a.reshape(-1), b.reshape(-1)):
        if rtol == 0 and atol == 0:
            conds.append(_eq_elem(x, y, equal_nan))
        else:
            xn = isinstance(x, float) and math.isnan(x)
            yn = isinstance(y, float) and math.isnan(y)
            if xn or yn:
                conds.append(bool(xn and yn and equal_nan))
                continue
            x, y = lift(x), lift(y)
            conds.append(abs(x - y) <= atol + rtol * abs(y))
    r = core.And(*conds) if conds else True
    return bool(r)


def _sign(x):
    if isinstance(x, SR):
        return x.sign()
    if isinstance(x, _np.ndarray) and x.dtype == object:
        return _map(x, lambda v: lift(v).sign())
    return _np.sign(x)


def _floorceil(which):
    def f(x):
        if isinstance(x, SR):
            return getattr(x, which)()
        if isinstance(x, _np.ndarray) and x.dtype == object:
            return _map(x, lambda v: getattr(lift(v), which)())
        return getattr(_np, which)(x)

    return f


class SymNP(types.ModuleType):
    """the module object bound to `np` in the code under test"""

    linalg = _Linalg()
    ndarray = _np.ndarray

    def __getattr__(self, name):
        return getattr(_np, name)

    # ---- creation
    @staticmethod
    def _fill(shape, v):
        a = _np.empty(shape, dtype=object)
        f = a.reshape(-1)
        for i in range(f.size):
            f[i] = v
        return a

    def zeros(self, shape, dtype=None, **k):
        from . import records
        if isinstance(dtype, (records.SymDType, list)):
            if isinstance(shape, tuple) and shape == ():
                return records.SymRecord(records.SymDType(dtype))      # 0-d structured array ~ one record
            return records.SymRecArray(shape if isinstance(shape, int) else shape[0], dtype)
        if _is_float_dtype(dtype):
            return self._fill(shape, SR(F(0)))
        return _np.zeros(shape, dtype=dtype, **k)

    def ones(self, shape, dtype=None, **k):
        if _is_float_dtype(dtype):
            return self._fill(shape, SR(F(1)))
        return _np.ones(shape, dtype=dtype, **k)

    def empty(self, shape, dtype=None, **k):
        from . import records
        if isinstance(dtype, (records.SymDType, list)):
            n = shape if isinstance(shape, (int, _np.integer)) else shape[0]
            return records.SymRecArray(int(n), dtype)
        if _is_float_dtype(dtype):
            return self._fill(shape, SR(F(0)))
        return _np.empty(shape, dtype=dtype, **k)

    def full(self, shape, fill_value, dtype=None, **k):
        if _is_float_dtype(dtype) or has_sym(fill_value):
            if dtype is None and isinstance(fill_value, (int, _np.integer)) and not isinstance(fill_value, bool):
                return _np.full(shape, fill_value)
            return self._fill(shape, lift(fill_value))
        return _np.full(shape, fill_value, dtype=dtype, **k)

    def zeros_like(self, x, dtype=None, **k):
        from . import records
        if isinstance(x, records.SymRecord):
            return records.SymRecord(x.dtype)
        if isinstance(x, records.SymRecArray):
            return records.SymRecArray(len(x), x.dtype)
        if isinstance(x, SR):
            return SR(F(0))
        x = _np.asarray(x) if not isinstance(x, _np.ndarray) else x
        if dtype is None and x.dtype.kind in "biu":
            return _np.zeros_like(x)
        return self._fill(x.shape, SR(F(0)))

    def ones_like(self, x, dtype=None, **k):
        x = _np.asarray(x) if not isinstance(x, _np.ndarray) else x
        if dtype is None and x.dtype.kind in "biu":
            return _np.ones_like(x)
        return self._fill(x.shape, SR(F(1)))

    def full_like(self, x, fill_value, dtype=None, **k):
        x = _np.asarray(x) if not isinstance(x, _np.ndarray) else x
        return self._fill(x.shape, lift(fill_value))

    def array(self, x, dtype=None, *, copy=True, ndmin=0, **k):
        from . import records
        if isinstance(x, records.SymRecArray):
            return x.copy()
        if isinstance(x, (list, tuple)) and x and all(isinstance(e, records.SymRecord) for e in x):
            return records.SymRecArray.from_records(list(x))
        if isinstance(x, (records.SymRecord,)):
            return x.copy()
        if isinstance(dtype, (records.SymDType,)):
            raise core.Abort("unsupported", "np.array with structured dtype")
        if has_sym(x) or (_is_float_dtype(dtype) and dtype is not None):
            a = objarr(x)
            if copy and a is x:
                a = a.copy()
            while a.ndim < ndmin:
                a = a[None]
            return a
        if dtype is None and not isinstance(x, _np.ndarray):
            # plain python numbers: keep ints as ints, turn floats into exact reals
            a = _np.array(x, ndmin=ndmin)
            if a.dtype.kind == "f":
                return objarr(a)
            return a
        a = _np.array(x, dtype=dtype, copy=copy, ndmin=ndmin, **k)
        if a.dtype.kind == "f":
            return objarr(a)
        return a

    def asarray(self, x, dtype=None, **k):
        from . import records
        if isinstance(x, (records.SymRecArray, records.SymRecord)):
            return x
        if isinstance(x, _np.ndarray) and x.dtype == object:
            return x
        if isinstance(x, _np.ndarray) and dtype is None and x.dtype.kind != "f":
            return x
        return self.array(x, dtype=dtype, copy=False)

    def asanyarray(self, x, dtype=None, **k):
        return self.asarray(x, dtype=dtype)

    def atleast_1d(self, *xs):
        from . import records
        res = []
        for x in xs:
            if isinstance(x, (records.SymRecArray,)):
                res.append(x)
                continue
            a = self.asarray(x)
            if a.ndim == 0:
                a = a.reshape(1)
            res.append(a)
        return res[0] if len(res) == 1 else res

    def atleast_2d(self, *xs):
        res = []
        for x in xs:
            a = self.asarray(x)
            if a.ndim == 0:
                a = a.reshape(1, 1)
            elif a.ndim == 1:
                a = a[None, :]
            res.append(a)
        return res[0] if len(res) == 1 else res

    def linspace(self, start, stop, num=50, endpoint=True, retstep=False, dtype=None, axis=0):
        start, stop = lift(start), lift(stop)
        div = (num - 1) if endpoint else num
        step = (stop - start) / div if div > 0 else SR(F(0))
        a = _np.empty(num, dtype=object)
        for i in range(num):
            a[i] = start + step * i
        if endpoint and num > 1:
            a[-1] = stop
        return (a, step) if retstep else a

    def arange(self, *a, **k):
        if any(has_sym(x) for x in a):
            raise core.Abort("unsupported", "np.arange with symbolic arguments")
        return _np.arange(*a, **k)

    # ---- predicates / reductions needing care
    isnan = staticmethod(_isnan)
    isinf = staticmethod(_isinf)
    isfinite = staticmethod(_isfinite)
    allclose = staticmethod(_allclose)
    sign = staticmethod(_sign)
    floor = staticmethod(_floorceil("floor"))
    ceil = staticmethod(_floorceil("ceil"))

    def isclose(self, a, b, rtol=1e-5, atol=1e-8, equal_nan=False):
        if not (has_sym(a) or has_sym(b)):
            return _np.isclose(a, b, rtol=rtol, atol=atol, equal_nan=equal_nan)
        a, b = lift(a), lift(b)
        return abs(a - b) <= atol + rtol * abs(b)

    sqrt = staticmethod(_call("sqrt", _np.sqrt))
    tanh = staticmethod(_call("tanh", _np.tanh))
    sin = staticmethod(_call("sin", _np.sin))
    cos = staticmethod(_call("cos", _np.cos))
    exp = staticmethod(_call("exp", _np.exp))
    arccos = staticmethod(_call("arccos", _np.arccos))
    arctan2 = staticmethod(_call("arctan2", _np.arctan2))
    hypot = staticmethod(_call("hypot", _np.hypot))

    def abs(self, x):
        if isinstance(x, SR):
            return abs(x)
        if isinstance(x, _np.ndarray) and x.dtype == object:
            return _map(x, lambda v: abs(lift(v)))
        from .models import cplx
        if isinstance(x, cplx.SC):
            return x.abs()
        return _np.abs(x)

    def real(self, x):
        if isinstance(x, SR):
            return x
        if isinstance(x, _np.ndarray) and x.dtype == object:
            return _map(x, lambda v: v.real if hasattr(v, "real") else v)
        return getattr(x, "real", x) if not isinstance(x, _np.ndarray) else _np.real(x)

    def imag(self, x):
        if isinstance(x, SR):
            return SR(F(0))
        if isinstance(x, _np.ndarray) and x.dtype == object:
            return _map(x, lambda v: v.imag if hasattr(v, "imag") else SR(F(0)))
        return getattr(x, "imag", 0.0) if not isinstance(x, _np.ndarray) else _np.imag(x)

    def issubdtype(self, a, b):
        if a in (SFloat,):
            a = float
        if a in (SInt,):
            a = int
        return _np.issubdtype(a, b)

    def isscalar(self, x):
        return isinstance(x, SR) or _np.isscalar(x)

    def min(self, x, *a, **k):
        return _np.min(x, *a, **k)

    def std(self, x, *a, **k):
        x = self.asarray(x)
        if x.dtype != object:
            return _np.std(x, *a, **k)
        n = x.size
        if n == 0:
            return math.nan
        m = x.sum() / n
        var = ((x - m) * (x - m)).sum() / n
        return lift(var).sqrt()

    def mean(self, x, *a, **k):
        x = self.asarray(x)
        if x.dtype != object or a or k:
            return _np.mean(x, *a, **k)
        if x.size == 0:
            return math.nan
        return x.sum() / x.size

    def clip(self, a, lo, hi, out=None):
        if isinstance(a, _np.ndarray) and a.dtype == object:
            res = _map(a, lambda v: core.smin(core.smax(lift(v), lo), hi))
            if out is not None:
                out[...] = res
                return out
            return res
        return _np.clip(a, lo, hi, out=out)

    def histogram(self, a, bins=10, **k):
        from .models import hist
        return hist.histogram(a, bins=bins, **k)

    @property
    def fft(self):
        from .models import fft
        return fft

    # ---- records
    @property
    def recarray(self):
        from . import records
        return records.recarray

    @property
    def record(self):
        from . import records
        return records.SymRecord

    @property
    def dtype(self):
        from . import records
        return records.SymDType


class PiSR(SR):
    """np.pi: a real *symbol* with 3.14159 < PI < 3.1416 on symbolic paths (so identities are proved for
    every such value, the true pi and its double included); the double in exact mode.  Resolved lazily
    because the repo evaluates `float(np.pi)` at import time."""

    __slots__ = ()

    def __init__(self):
        pass

    @property
    def v(self):
        c = core.CTX
        if c is None or c.mode == "exact":
            return F(math.pi)
        p = z3.Real("PI")
        if not getattr(c, "_pi", False):
            c._pi = True
            c.add(z3.And(p > z3.RealVal("3.14159"), p < z3.RealVal("3.1416")), kind="def", defines=["PI"])
        return p

    @property
    def is_conc(self):
        c = core.CTX
        return c is None or c.mode == "exact"

    def __float__(self):
        return math.pi

    def __repr__(self):
        return "PI"


SymNP.pi = PiSR()
symnp = SymNP("numpy")


def pi():
    return symnp.pi
