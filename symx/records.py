"""Structured-record model (np.dtype / np.record / structured arrays) for symbolic payloads.

Reproduces the numpy behaviour the code under test relies on:
  * a record obtained by indexing an array (`arr[i]`) is a *view* (shares storage);
  * `record.copy()`, `np.array([records...])`, `arr.copy()` are deep copies;
  * array-valued fields are returned as the stored ndarray (in-place writes go through);
  * assigning to a field copies values into the stored ndarray (broadcasting);
  * `structured_to_unstructured` / `unstructured_to_structured` / `rec_drop_fields` copy.
Validated against real numpy by symx/validate_models.py.
"""
from __future__ import annotations

import math
import types
from fractions import Fraction as F

import numpy as _np

from . import core
from .core import SR
from .npshim import lift, objarr, has_sym


class _FieldInfo(tuple):
    """dtype.fields[name] -> (subdtype, offset); subdtype has .shape"""


class SymDType:
    def __new__(cls, spec=None, *a, **k):
        if isinstance(spec, SymDType):
            return spec
        return object.__new__(cls)

    def __init__(self, spec=None, *a, **k):
        if isinstance(spec, SymDType):
            return
        if isinstance(spec, _np.dtype):
            spec = _descr_of_numpy(spec)
        if not isinstance(spec, (list, tuple)):
            raise TypeError(f"unsupported dtype specification {spec!r}")
        norm = []
        for s in spec:
            name = s[0]
            shape = tuple(int(i) for i in s[2]) if len(s) > 2 else ()
            if isinstance(shape, tuple) and shape == (1,) and False:
                shape = (1,)
            norm.append((str(name), shape))
        self.spec = norm
        self.names = tuple(n for n, _ in norm)
        self.fields = {
            n: _FieldInfo((types.SimpleNamespace(shape=sh), None)) for n, sh in norm
        }

    @property
    def descr(self):
        out = []
        for n, sh in self.spec:
            out.append((n, "<f8", sh) if sh else (n, "<f8"))
        return out

    def shape_of(self, name):
        return dict(self.spec)[name]

    def __getitem__(self, k):
        return types.SimpleNamespace(shape=self.shape_of(k))

    def __eq__(self, o):
        if isinstance(o, _np.dtype):
            try:
                o = SymDType(o)
            except Exception:
                return False
        return isinstance(o, SymDType) and self.spec == o.spec

    def __ne__(self, o):
        return not self.__eq__(o)

    def __hash__(self):
        return hash(tuple(self.spec))

    def __bool__(self):
        return True

    @property
    def dtype(self):
        return self

    @property
    def nflat(self):
        return sum(int(_np.prod(sh)) if sh else 1 for _, sh in self.spec)

    def __repr__(self):
        return f"SymDType({self.spec})"


def _descr_of_numpy(dt):
    out = []
    for n in dt.names:
        sub = dt.fields[n][0]
        out.append((n, "f8", tuple(sub.shape)) if sub.shape else (n, "f8"))
    return out


def _zero_store(dtype):
    st = {}
    for n, sh in dtype.spec:
        if sh:
            a = _np.empty(sh, dtype=object)
            f = a.reshape(-1)
            for i in range(f.size):
                f[i] = SR(F(0))
            st[n] = a
        else:
            st[n] = [SR(F(0))]  # one-element cell so that views can share it
    return st


class SymRecord:
    """np.record / 0-d structured array"""

    def __init__(self, dtype_or_record, _store=None):
        if isinstance(dtype_or_record, SymRecord):
            src = dtype_or_record
            object.__setattr__(self, "dtype", src.dtype)
            object.__setattr__(self, "_store", _copy_store(src.dtype, src._store))
            return
        dt = SymDType(dtype_or_record)
        object.__setattr__(self, "dtype", dt)
        object.__setattr__(self, "_store", _store if _store is not None else _zero_store(dt))

    # field access
    def __getitem__(self, k):
        if isinstance(k, str):
            if k not in self._store:
                raise ValueError(f"no field of name {k}")
            v = self._store[k]
            return v if isinstance(v, _np.ndarray) else v[0]
        if k == () or k is Ellipsis:
            return self
        raise IndexError("invalid index to record")

    def __setitem__(self, k, v):
        if self.__dict__.get("_detached"):
            return      # numpy: a record restored from a pickle is a detached scalar; assigning its fields has no effect
        if k == () or k is Ellipsis:
            if isinstance(v, SymRecord):
                for n in self.dtype.names:
                    self[n] = v[n]
                return
            if isinstance(v, tuple):
                self._set_tuple(v)
                return
        sh = self.dtype.shape_of(k)
        if sh:
            src = v if isinstance(v, _np.ndarray) else _np.asarray(objarr(v) if has_sym(v) else v, dtype=object)
            src = _np.broadcast_to(src, sh)
            tgt = self._store[k]
            ft = tgt.reshape(-1)
            for i, x in enumerate(src.reshape(-1)):
                ft[i] = lift(x)
        else:
            if isinstance(v, _np.ndarray):
                if v.size != 1:
                    raise ValueError("setting an array element with a sequence.")
                v = v.reshape(-1)[0]
            self._store[k][0] = lift(v)

    def _set_tuple(self, tup):
        if len(tup) != len(self.dtype.names):
            raise ValueError("could not assign tuple: wrong number of fields")
        for n, v in zip(self.dtype.names, tup):
            self[n] = v

    def __getattr__(self, k):
        st = object.__getattribute__(self, "_store")
        if k in st and not self.__dict__.get("_attr_ok", True):
            # a row of a plain structured ndarray is a numpy.void: fields only by item access
            raise AttributeError(f"'numpy.void' object has no attribute '{k}'")
        if k in st:
            v = st[k]
            return v if isinstance(v, _np.ndarray) else v[0]
        raise AttributeError(k)

    def __setattr__(self, k, v):
        if k in self._store:
            self[k] = v
        else:
            raise AttributeError(f"record has no field {k}")

    def copy(self):
        return SymRecord(self)

    def reshape(self, *shape):
        """0-d structured array -> 1-element structured array sharing the record"""
        shape = shape[0] if len(shape) == 1 else shape
        if shape in (1, (1,), -1, (-1,)):
            return SymRecArray(0, self.dtype, [self])
        if shape == ():
            return self
        raise ValueError(f"cannot reshape a record into shape {shape}")

    def tolist(self):
        out = []
        for n, sh in self.dtype.spec:
            v = self[n]
            out.append(v.tolist() if sh else v)
        return tuple(out)

    def flat_values(self):
        out = []
        for n, sh in self.dtype.spec:
            v = self[n]
            if sh:
                out.extend(v.reshape(-1).tolist())
            else:
                out.append(v)
        return out

    @property
    def shape(self):
        return ()

    @property
    def ndim(self):
        return 0

    def __len__(self):
        raise TypeError("len() of unsized object")

    def __repr__(self):
        return f"SymRecord({ {n: self[n] for n in self.dtype.names} })"


def _copy_store(dtype, st):
    new = {}
    for n, sh in dtype.spec:
        v = st[n]
        new[n] = v.copy() if isinstance(v, _np.ndarray) else [v[0]]
    return new


class SymRecArray:
    """1-d structured array"""

    def __init__(self, n, dtype, _recs=None):
        self.dtype = SymDType(dtype)
        self._recs = _recs if _recs is not None else [SymRecord(self.dtype) for _ in range(n)]

    @classmethod
    def from_records(cls, recs):
        dt = recs[0].dtype
        for r in recs[1:]:
            if r.dtype != dt:
                # numpy would try to promote; the repo only logs a warning in that case
                raise TypeError("invalid type promotion with structured datatype(s).")
        rows = [r.copy() for r in recs]
        for r in rows:                      # np.array([records]) is a plain structured ndarray, not a recarray
            object.__setattr__(r, "_attr_ok", False)
        return cls(len(recs), dt, rows)

    def view(self, kind=None):
        """`.view(np.recarray)`: the same rows with attribute access"""
        for r in self._recs:
            object.__setattr__(r, "_attr_ok", True)
        return self

    def __len__(self):
        return len(self._recs)

    @property
    def shape(self):
        return (len(self._recs),)

    @property
    def ndim(self):
        return 1

    @property
    def size(self):
        return len(self._recs)

    def __iter__(self):
        return iter(self._recs)

    def __getitem__(self, k):
        if isinstance(k, str):
            sh = self.dtype.shape_of(k)
            n = len(self._recs)
            if sh:
                out = _np.empty((n,) + sh, dtype=object)
                for i, r in enumerate(self._recs):
                    out[i] = r[k]
                return out
            out = _np.empty(n, dtype=object)
            for i, r in enumerate(self._recs):
                out[i] = r[k]
            return out
        if isinstance(k, (int, _np.integer)):
            return self._recs[k]  # view: same record object
        if isinstance(k, slice):
            return SymRecArray(0, self.dtype, self._recs[k])
        if isinstance(k, _np.ndarray):
            idx = _np.arange(len(self._recs))[k]
            return SymRecArray(0, self.dtype, [self._recs[int(i)].copy() for i in _np.atleast_1d(idx)])
        raise IndexError(f"unsupported index {k!r}")

    def __setitem__(self, k, v):
        if isinstance(k, str):       # column assignment
            sh = self.dtype.shape_of(k)
            n = len(self._recs)
            src = v if isinstance(v, _np.ndarray) else _np.asarray(objarr(v) if has_sym(v) else v, dtype=object)
            src = _np.broadcast_to(src, (n,) + tuple(sh))
            for i, r in enumerate(self._recs):
                r[k] = src[i]
            return
        if isinstance(k, (int, _np.integer)):
            r = self._recs[k]
            if isinstance(v, tuple):
                r._set_tuple(v)
            elif isinstance(v, SymRecord):
                for n in self.dtype.names:
                    r[n] = v[n]
            else:
                raise TypeError("unsupported assignment to structured array element")
            return
        raise IndexError(f"unsupported index {k!r}")

    def copy(self):
        return SymRecArray(0, self.dtype, [r.copy() for r in self._recs])

    def tolist(self):
        return [r.tolist() for r in self._recs]

    def __repr__(self):
        return f"SymRecArray({self._recs})"


def recarray(shape, dtype=None, **k):
    n = shape if isinstance(shape, (int, _np.integer)) else shape[0]
    return SymRecArray(int(n), dtype)


# ---- numpy.lib.recfunctions

def structured_to_unstructured(arr, dtype=None, copy=False, casting="unsafe"):
    if isinstance(arr, SymRecord):
        vals = arr.flat_values()
        out = _np.empty(len(vals), dtype=object)
        for i, v in enumerate(vals):
            out[i] = v
        return out
    if isinstance(arr, SymRecArray):
        out = _np.empty((len(arr), arr.dtype.nflat), dtype=object)
        for i, r in enumerate(arr):
            for j, v in enumerate(r.flat_values()):
                out[i, j] = v
        return out
    from numpy.lib import recfunctions as rfn
    return rfn.structured_to_unstructured(arr, dtype=dtype, copy=copy, casting=casting)


def unstructured_to_structured(arr, dtype=None, names=None, align=False, copy=False, casting="unsafe"):
    dt = SymDType(dtype)
    arr = _np.asarray(arr, dtype=object) if not isinstance(arr, _np.ndarray) else arr
    if arr.shape[-1] != dt.nflat:
        raise ValueError("The length of the last dimension of arr must be equal to the number of fields in dtype")
    if arr.ndim != 1:
        raise core.Abort("unsupported", "unstructured_to_structured on >1-d input")
    rec = SymRecord(dt)
    pos = 0
    for n, sh in dt.spec:
        k = int(_np.prod(sh)) if sh else 1
        if sh:
            rec[n] = arr[pos:pos + k].reshape(sh)
        else:
            rec[n] = arr[pos]
        pos += k
    return rec


def rec_drop_fields(base, drop_names):
    if isinstance(drop_names, str):
        drop_names = [drop_names]
    if not isinstance(base, SymRecArray):
        from numpy.lib import recfunctions as rfn
        return rfn.rec_drop_fields(base, drop_names)
    spec = [(n, "f8", sh) if sh else (n, "f8") for n, sh in base.dtype.spec if n not in drop_names]
    dt = SymDType(spec)
    recs = []
    for r in base:
        nr = SymRecord(dt)
        for n in dt.names:
            nr[n] = r[n]
        recs.append(nr)
    return SymRecArray(0, dt, recs)


rfn_module = types.ModuleType("numpy.lib.recfunctions")
rfn_module.structured_to_unstructured = structured_to_unstructured
rfn_module.unstructured_to_structured = unstructured_to_structured
rfn_module.rec_drop_fields = rec_drop_fields
