"""SYMX core: symbolic values, path exploration by re-execution, obligations.

The code under test (the text of /repo/droplets/*.py, loaded by symx.loader) runs under the
ordinary CPython interpreter on these values.  A *path* is one execution of a harness body;
`SB.__bool__` is the only place where a path forks.  Obligations are decided by z3 over all
values of the symbolic inputs that satisfy the path condition.
"""
from __future__ import annotations

import math
import os
import sys
import time
from fractions import Fraction as F

import numpy as _np
import z3

from . import xcheck

INF = float("inf")
MOD_MODE = os.environ.get("SYMX_MOD", "disj")   # "fork": one path per wrap count; "disj": solver-side case split
MOD_WINDOW = 4
ANGLE_AXIOMS = False     # arccos / arctan2 results constrained by their defining relations (cos t = u, sin t >= 0; h cos p = x, h sin p = y)
TRIG_IDENTITY = True     # sin^2 + cos^2 = 1 for every argument term


class Abort(BaseException):
    """Ends the current path (BaseException: never caught by `except Exception`)."""

    def __init__(self, kind, msg=""):
        super().__init__(kind, msg)
        self.kind, self.msg = kind, msg


class ReplayReject(Exception):
    """Float replay: the witness does not satisfy the harness precondition in floats."""


# --------------------------------------------------------------------------- context

class PCEntry:
    __slots__ = ("expr", "kind", "defines", "vars", "text")

    def __init__(self, expr, kind, defines=(), text=None):
        self.expr, self.kind, self.defines, self.text = expr, kind, frozenset(defines), text
        self.vars = frozenset(_vars_of(expr))


_VARS_CACHE: dict = {}


def _vars_of(e):
    """names of the uninterpreted constants occurring in z3 expression e"""
    key = e.get_id()
    hit = _VARS_CACHE.get(key)
    if hit is not None and hit[0].eq(e):
        return hit[1]
    out, seen, stack = set(), set(), [e]
    while stack:
        t = stack.pop()
        i = t.get_id()
        if i in seen:
            continue
        seen.add(i)
        if z3.is_const(t):
            if t.decl().kind() == z3.Z3_OP_UNINTERPRETED:
                out.add(t.decl().name())
        else:
            stack.extend(t.children())
    if len(_VARS_CACHE) > 200000:
        _VARS_CACHE.clear()
    _VARS_CACHE[key] = (e, frozenset(out))
    return _VARS_CACHE[key][1]


def _pseudo(name, lo=0.5, hi=1.5):
    import zlib
    return lo + (hi - lo) * ((zlib.crc32(name.encode()) % 100003) / 100003.0)


def testval(c, e, _memo=None):
    """float value of term e at the path's fixed pseudo-random test point (used only to decide which pairs of
    abstraction arguments can possibly be equal, i.e. for which pairs a congruence axiom is worth adding)"""
    memo = c.tv_memo
    key = e.get_id()
    hit = memo.get(key)
    if hit is not None and hit[0].eq(e):
        return hit[1]
    if z3.is_rational_value(e):
        v = e.numerator_as_long() / e.denominator_as_long()
    elif z3.is_int_value(e):
        v = float(e.as_long())
    elif z3.is_const(e):
        nm = e.decl().name()
        if nm not in c.tv:
            if nm == "PI":
                c.tv[nm] = math.pi
            else:
                lo, hi = c.input_meta.get(nm, (None, None))
                lo = float(lo) if lo is not None and not isinstance(lo, SR) else 0.5
                hi = float(hi) if hi is not None and not isinstance(hi, SR) else lo + 1.0
                c.tv[nm] = _pseudo(nm, lo + 0.01 * (hi - lo), hi - 0.01 * (hi - lo)) if hi > lo else lo
        v = c.tv[nm]
    else:
        k = e.decl().kind()
        ch = [testval(c, x) for x in e.children()]
        try:
            if k == z3.Z3_OP_ADD:
                v = sum(ch)
            elif k == z3.Z3_OP_SUB:
                v = ch[0] - sum(ch[1:])
            elif k == z3.Z3_OP_UMINUS:
                v = -ch[0]
            elif k == z3.Z3_OP_MUL:
                v = 1.0
                for x in ch:
                    v *= x
            elif k == z3.Z3_OP_DIV:
                v = ch[0] / ch[1]
            elif k == z3.Z3_OP_POWER:
                v = ch[0] ** ch[1]
            elif k == z3.Z3_OP_ITE:
                v = ch[1] if _testbool(c, e.children()[0]) else ch[2]
            elif k == z3.Z3_OP_TO_REAL:
                v = ch[0]
            else:
                v = float("nan")
        except (ZeroDivisionError, OverflowError, ValueError):
            v = float("nan")
    if len(memo) > 200000:
        memo.clear()
    memo[key] = (e, v)
    return v


def _testbool(c, b):
    k = b.decl().kind()
    ch = b.children()
    if z3.is_true(b):
        return True
    if z3.is_false(b):
        return False
    if k == z3.Z3_OP_NOT:
        return not _testbool(c, ch[0])
    if k == z3.Z3_OP_AND:
        return all(_testbool(c, x) for x in ch)
    if k == z3.Z3_OP_OR:
        return any(_testbool(c, x) for x in ch)
    x, y = testval(c, ch[0]), testval(c, ch[1])
    return {z3.Z3_OP_LE: x <= y, z3.Z3_OP_LT: x < y, z3.Z3_OP_GE: x >= y, z3.Z3_OP_GT: x > y,
            z3.Z3_OP_EQ: x == y, z3.Z3_OP_DISTINCT: x != y}.get(k, False)


def _test3(c, b, tol=1e-6):
    """three-valued evaluation of a Boolean term at the test point: True / False / None (too close to call)"""
    if z3.is_true(b):
        return True
    if z3.is_false(b):
        return False
    k = b.decl().kind()
    ch = b.children()
    if k == z3.Z3_OP_NOT:
        r = _test3(c, ch[0], tol)
        return None if r is None else (not r)
    if k == z3.Z3_OP_AND:
        rs = [_test3(c, x, tol) for x in ch]
        return False if any(r is False for r in rs) else (None if any(r is None for r in rs) else True)
    if k == z3.Z3_OP_OR:
        rs = [_test3(c, x, tol) for x in ch]
        return True if any(r is True for r in rs) else (None if any(r is None for r in rs) else False)
    if k == z3.Z3_OP_IMPLIES:
        return _test3(c, z3.Or(z3.Not(ch[0]), ch[1]), tol)
    if k == z3.Z3_OP_ITE:
        g = _test3(c, ch[0], tol)
        return None if g is None else _test3(c, ch[1] if g else ch[2], tol)
    if k in (z3.Z3_OP_LE, z3.Z3_OP_LT, z3.Z3_OP_GE, z3.Z3_OP_GT, z3.Z3_OP_EQ, z3.Z3_OP_DISTINCT) and len(ch) == 2 \
            and not z3.is_bool(ch[0]):
        x, y = testval(c, ch[0]), testval(c, ch[1])
        if x != x or y != y or abs(x) == math.inf or abs(y) == math.inf:
            return None
        if abs(x - y) <= tol * (1 + abs(x) + abs(y)):
            return None
        return {z3.Z3_OP_LE: x <= y, z3.Z3_OP_LT: x < y, z3.Z3_OP_GE: x >= y, z3.Z3_OP_GT: x > y,
                z3.Z3_OP_EQ: False, z3.Z3_OP_DISTINCT: True}[k]
    if k == z3.Z3_OP_EQ and len(ch) == 2:
        a, d = _test3(c, ch[0], tol), _test3(c, ch[1], tol)
        return None if a is None or d is None else (a == d)
    return None


def testpoint_refutation(c, goal):
    """after the solver answered `unknown`: does the path's pseudo-random test point (inputs inside their
    declared ranges, implicitly defined values computed from their definitions) lie on this path and
    violate `goal` by a clear numeric margin?  Returns the input assignment or None.  Such an assignment is
    only a *candidate*: it counts only if the float replay on the real package fails the same obligation."""
    try:
        for ent in c.pc:
            if ent.kind == "def":
                continue
            if _test3(c, ent.expr) is not True:
                return None
        if _test3(c, goal) is not False:
            return None
        out = {}
        for name in c.inputs:
            v = c.tv.get(name)
            if v is None:
                v = testval(c, c.inputs[name])
            out[name] = F(v).limit_denominator(1 << 24)
        return out
    except (RecursionError, z3.Z3Exception):
        return None


def _close_tv(a, b):
    if a != a or b != b:
        return True          # not evaluable: keep the pair
    return abs(a - b) <= 1e-7 * (1 + abs(a) + abs(b))


def _is_nonlinear(e):
    seen, stack = set(), [e]
    while stack:
        t = stack.pop()
        i = t.get_id()
        if i in seen:
            continue
        seen.add(i)
        k = t.decl().kind() if z3.is_app(t) else None
        if k == z3.Z3_OP_MUL:
            if sum(0 if z3.is_rational_value(c) or z3.is_int_value(c) else 1 for c in t.children()) >= 2:
                return True
        elif k in (z3.Z3_OP_DIV, z3.Z3_OP_POWER):
            ch = t.children()
            if not (z3.is_rational_value(ch[1]) or z3.is_int_value(ch[1])):
                return True
        stack.extend(t.children())
    return False


class Ctx:
    """State of one path."""

    def __init__(self, prefix=(), qtimeout_ms=10000, mode="sym", witness=None):
        self.mode = mode  # "sym" | "exact" (concrete Fractions through the same engine)
        self.prefix = list(prefix)
        self.decisions: list[bool] = []
        self.pc: list[PCEntry] = []
        self.worklist: list[list[bool]] = []
        self.qtimeout_ms = qtimeout_ms
        self.solver = z3.Solver()
        self.solver.set("timeout", qtimeout_ms)
        self.lsolver = z3.SimpleSolver()          # linear abstraction of the path condition
        self.lsolver.set("smt.arith.nl", False)
        self.lsolver.set("timeout", 400)
        self.decided: dict[int, bool] = {}
        self.nonlinear = False
        self.model = None
        self.queries = 0
        self.qtime = 0.0
        self.nfresh = 0
        self.inputs: dict[str, z3.ExprRef] = {}
        self.input_meta: dict[str, tuple] = {}
        self.assumption_texts: list[str] = []
        self.obligations: list[dict] = []
        self.covers: dict[str, bool] = {}
        self.unknown_branches = 0
        self.apps: dict[str, list] = {}  # abstraction applications per function
        self.defcache: dict = {}
        self.observed: dict = {}
        self.witness = witness or {}
        self.check_defined = True
        self.notes: list[str] = []
        self.known_covers: set = set()      # cover goals already met on an earlier path of this exploration
        self.tv: dict = {}                  # test-point values of variables (see testval)
        self.tv_memo: dict = {}

    # -- solver plumbing
    def _check(self, solver, *extra):
        t = time.time()
        self.queries += 1
        try:
            r = str(solver.check(*extra))
        except z3.Z3Exception:
            r = "unknown"
        self.qtime += time.time() - t
        return r

    def feasible(self, extra):
        """satisfiability of pc ∧ extra: linear abstraction (unsat only), incremental solver, then a fresh
        non-incremental solver (z3 picks nlsat for QF_NRA there); leaves a model in self.model when sat"""
        if self._check(self.lsolver, extra) == "unsat":
            xcheck.offer([e.expr for e in self.pc], extra, "branch-linear")
            return "unsat"
        if self.nonlinear:
            s = z3.Solver()
            s.set("timeout", self.qtimeout_ms)
            s.add(*[e.expr for e in self.pc])
            s.add(extra)
            r = self._check(s)
            if r == "sat":
                self.model = s.model()
            if r == "unsat":
                xcheck.offer([e.expr for e in self.pc], extra, "branch")
            if r != "unknown":
                return r
        r = self._check(self.solver, extra)
        if r == "sat":
            self.model = self.solver.model()
        elif r == "unsat":
            xcheck.offer([e.expr for e in self.pc], extra, "branch")
        return r

    def fresh(self, name, sort="real"):
        self.nfresh += 1
        nm = f"{name}!{self.nfresh}"
        return z3.Real(nm) if sort == "real" else (z3.Int(nm) if sort == "int" else z3.Bool(nm))

    def add(self, expr, kind="assume", defines=(), text=None):
        expr = z3.simplify(expr) if not z3.is_bool(expr) or True else expr
        if z3.is_true(expr):
            return
        self.solver.add(expr)
        self.lsolver.add(expr)
        if not self.nonlinear and _is_nonlinear(expr):
            self.nonlinear = True
        self.pc.append(PCEntry(expr, kind, defines, text))
        if self.model is not None:
            try:
                if not z3.is_true(self.model.eval(expr, model_completion=True)):
                    self.model = None
            except z3.Z3Exception:
                self.model = None

    def ensure_model(self):
        if self.model is None:
            r = self._check(self.solver)
            if r == "sat":
                self.model = self.solver.model()
            elif r == "unsat":
                raise Abort("infeasible", "path condition unsatisfiable")
            else:
                raise Abort("unknown", "path feasibility unknown")
        return self.model

    def branch(self, cond) -> bool:
        cond = z3.simplify(cond)
        if z3.is_true(cond):
            return True
        if z3.is_false(cond):
            return False
        hit = self.decided.get(cond.get_id())
        if hit is not None and hit[0].eq(cond):
            return hit[1]
        i = len(self.decisions)
        if i < len(self.prefix):
            val = self.prefix[i]
            self._decide(cond, val)
            return val
        # new decision point: which sides are feasible?
        guess = None
        if self.model is not None:
            try:
                v = self.model.eval(cond, model_completion=True)
                guess = True if z3.is_true(v) else (False if z3.is_false(v) else None)
            except z3.Z3Exception:
                guess = None
        if guess is None:
            r = self.feasible(cond)
            if r == "sat":
                guess = True
            elif r == "unsat":
                # only the false side can be feasible (path itself is feasible)
                self._decide(cond, False)
                return False
            else:
                r2 = self.feasible(z3.Not(cond))
                if r2 == "sat":
                    self.unknown_branches += 1
                    self._decide(cond, False)
                    return False
                raise Abort("unknown", "branch feasibility unknown")
        other = z3.Not(cond) if guess else cond
        saved = self.model
        r = self.feasible(other)
        if r == "sat":
            self.worklist.append(self.decisions + [not guess])
        elif r == "unknown":
            self.unknown_branches += 1
        self.model = saved
        self._decide(cond, guess)
        return guess

    def _decide(self, cond, val):
        self.decisions.append(val)
        self.decided[cond.get_id()] = (cond, val)     # the expression is kept alive: ids are reused after GC
        neg = z3.simplify(z3.Not(cond))
        self.decided[neg.get_id()] = (neg, not val)
        self.add(cond if val else neg, kind="branch")

    # -- slicing
    def _slice(self, expr):
        """cheap relevance slice: definitions of mentioned fresh variables (transitively) and
        every constraint whose variables are all already relevant"""
        vs = set(_vars_of(expr))
        defs = [e for e in self.pc if e.kind == "def"]
        rest = [e for e in self.pc if e.kind != "def"]
        chosen, changed = [], True
        used = set()
        while changed:
            changed = False
            for k, e in enumerate(defs):
                if k in used:
                    continue
                if e.defines and e.defines <= vs:
                    used.add(k)
                    chosen.append(e.expr)
                    new = e.vars - vs
                    if new:
                        vs |= new
                        changed = True
        for e in rest:
            if e.vars <= vs:
                chosen.append(e.expr)
        return chosen

    def decide(self, neg, timeout_ms=None):
        """is pc ∧ neg satisfiable?  returns (verdict, model, how).

        Stages (each sound): 1-2 linear abstraction (products opaque; `unsat` there holds over the reals)
        on the relevance slice and on the full path condition; 3 nonlinear solver on the slice (`unsat`
        only); 4 nonlinear solver on the full path condition (`sat` with model, `unsat`, or `unknown`)."""
        timeout_ms = timeout_ms or self.qtimeout_ms
        neg = z3.simplify(neg)
        if z3.is_false(neg):
            return "unsat", None, "rewriter"
        full = [e.expr for e in self.pc]
        sl = self._slice(neg)
        sliced = len(sl) < len(full)

        def lin(cons):
            s0 = z3.SimpleSolver()
            s0.set("smt.arith.nl", False)
            s0.set("timeout", min(timeout_ms, 3000))
            s0.add(*cons)
            s0.add(neg)
            return self._check(s0)

        if sliced and lin(sl) == "unsat":
            xcheck.offer(sl, neg, "linear-slice")
            return "unsat", None, "linear-slice"
        if lin(full) == "unsat":
            xcheck.offer(full, neg, "linear")
            return "unsat", None, "linear"
        if sliced:
            s = z3.Solver()
            s.set("timeout", timeout_ms)
            s.add(*sl)
            s.add(neg)
            if self._check(s) == "unsat":
                xcheck.offer(sl, neg, "slice")
                return "unsat", None, "slice"
        s = z3.Solver()
        s.set("timeout", timeout_ms)
        s.add(*full)
        s.add(neg)
        r = self._check(s)
        if r == "unknown":
            try:
                s2 = z3.Tactic("qfnra-nlsat").solver()
                s2.set("timeout", timeout_ms)
                s2.add(*full)
                s2.add(neg)
                r2 = self._check(s2)
                if r2 != "unknown":
                    if r2 == "unsat":
                        xcheck.offer(full, neg, "nlsat")
                    return r2, (s2.model() if r2 == "sat" else None), "nlsat"
            except z3.Z3Exception:
                pass
        if r == "unsat":
            xcheck.offer(full, neg, "full")
        return r, (s.model() if r == "sat" else None), "full"


CTX: Ctx | None = None


def ctx() -> Ctx:
    if CTX is None:
        raise RuntimeError("no SYMX path context active")
    return CTX


# --------------------------------------------------------------------------- conversion helpers

def _frac_of_float(x):
    return F(float(x))


def conc(x):
    """Fraction for a concrete finite number, the float itself for inf/nan, None if symbolic"""
    if isinstance(x, SR):
        if isinstance(x, SqrtSR):
            return None  # lazy roots are never concrete
        x = x.v
        return x if isinstance(x, F) else None
    if isinstance(x, F):
        return x
    if isinstance(x, (bool, _np.bool_)):
        return F(int(x))
    if isinstance(x, (int, _np.integer)):
        return F(int(x))
    if isinstance(x, (float, _np.floating)):
        x = float(x)
        if math.isinf(x) or math.isnan(x):
            return x
        return F(x)
    if isinstance(x, _np.ndarray) and x.ndim == 0:
        return conc(x.item())
    return None


def is_special(c):
    return isinstance(c, float)


def toz(x):
    if isinstance(x, SR):
        x = x.v
    if isinstance(x, z3.ExprRef):
        return x
    c = conc(x)
    if c is None or is_special(c):
        raise TypeError(f"cannot convert {x!r} to a solver term")
    return z3.RealVal(f"{c.numerator}/{c.denominator}") if c.denominator != 1 else z3.RealVal(c.numerator)


def tob(x):
    """z3 Bool from SB / bool"""
    if isinstance(x, SB):
        return x.e
    if isinstance(x, (bool, _np.bool_)):
        return z3.BoolVal(bool(x))
    if isinstance(x, z3.BoolRef):
        return x
    raise TypeError(f"not a boolean: {x!r}")


def _site():
    """nearest frame that belongs to the code under test (for naming definedness obligations)"""
    f = sys._getframe(2)
    root = os.environ.get("VERIF_REPO", "/repo")
    while f is not None:
        fn = f.f_code.co_filename
        if fn.startswith(root):
            return f"{os.path.basename(fn)}:{f.f_lineno}:{f.f_code.co_name}"
        f = f.f_back
    return "harness"


# --------------------------------------------------------------------------- booleans

class SB:
    """symbolic boolean; bool(SB) forks the path"""

    __slots__ = ("e",)

    def __init__(self, e):
        self.e = e

    def __deepcopy__(self, memo):
        return self

    def __copy__(self):
        return self

    def __bool__(self):
        return ctx().branch(self.e)

    def __invert__(self):
        return SB(z3.Not(self.e))

    def __and__(self, o):
        if isinstance(o, _np.ndarray):
            return NotImplemented
        return SB(z3.And(self.e, tob(o)))

    __rand__ = __and__

    def __or__(self, o):
        if isinstance(o, _np.ndarray):
            return NotImplemented
        return SB(z3.Or(self.e, tob(o)))

    __ror__ = __or__

    def __eq__(self, o):
        return SB(self.e == tob(o))

    def __ne__(self, o):
        return SB(self.e != tob(o))

    __hash__ = None

    def __float__(self):
        return 1.0 if bool(self) else 0.0

    def __int__(self):
        return 1 if bool(self) else 0

    def __index__(self):
        return 1 if bool(self) else 0

    def __repr__(self):
        return f"SB({self.e})"


def And(*xs):
    xs = [x for x in xs]
    if all(isinstance(x, (bool, _np.bool_)) for x in xs):
        return all(xs)
    return SB(z3.And(*[tob(x) for x in xs]))


def Or(*xs):
    if all(isinstance(x, (bool, _np.bool_)) for x in xs):
        return any(xs)
    return SB(z3.Or(*[tob(x) for x in xs]))


def Not(x):
    if isinstance(x, (bool, _np.bool_)):
        return not x
    return SB(z3.Not(tob(x)))


def Implies(a, b):
    return Or(Not(a), b)


def Iff(a, b):
    if isinstance(a, (bool, _np.bool_)) and isinstance(b, (bool, _np.bool_)):
        return bool(a) == bool(b)
    return SB(tob(a) == tob(b))


# --------------------------------------------------------------------------- reals

def _special_bin(a, b, op):
    """arithmetic when one operand is inf/nan (floats)"""
    fa = a if isinstance(a, float) else (float(a) if a is not None else None)
    fb = b if isinstance(b, float) else (float(b) if b is not None else None)
    if fa is None or fb is None:
        # symbolic (finite) with special
        sp = fa if fa is not None else fb
        if math.isnan(sp):
            return math.nan
        if op in ("add",):
            return sp
        if op == "sub":
            return sp if fa is not None else -sp
        raise Abort("unsupported", f"symbolic {op} with infinity")
    try:
        return {"add": fa + fb, "sub": fa - fb, "mul": fa * fb, "div": fa / fb}[op]
    except ZeroDivisionError:
        return math.nan


class SR:
    """real number: exact Fraction or z3 Real term"""

    __slots__ = ("_v",)


    def __init__(self, v):
        if isinstance(v, SR):
            v = v.v if not isinstance(v, SqrtSR) else v.v
        elif isinstance(v, (F, z3.ExprRef)):
            pass
        else:
            c = conc(v)
            if c is None:
                raise TypeError(f"cannot make a symbolic real from {v!r}")
            if is_special(c):
                raise TypeError("inf/nan are not SR values")
            v = c
        self._v = v

    @property
    def v(self):
        return self._v

    @property
    def is_conc(self):
        return isinstance(self.v, F)

    def __deepcopy__(self, memo):      # immutable value: copies keep the identical term
        return self

    def __copy__(self):
        return self

    # -- arithmetic
    def _bin(self, o, op):
        if isinstance(o, _np.ndarray):
            return NotImplemented
        if isinstance(o, SB) or o is None or isinstance(o, (str, bytes, tuple, list, dict)):
            return NotImplemented
        a, b = conc(self), conc(o)
        if b is None and not isinstance(o, SR):
            return NotImplemented
        if is_special(b):
            return _special_bin(a, b, op)
        if a is not None and b is not None:
            if op == "add":
                return SR(a + b)
            if op == "sub":
                return SR(a - b)
            if op == "mul":
                return SR(a * b)
            if b == 0:
                # both operands concrete: IEEE result as numpy gives it (0/0 -> nan, x/0 -> +-inf); whether a
                # non-finite value reaches a result is decided by the finiteness obligations
                return math.nan if a == 0 else (math.inf if a > 0 else -math.inf)
            return SR(a / b)
        if op == "mul":
            if a is not None and a == 0 or b is not None and b == 0:
                return SR(F(0))
            if a is not None and a == 1:
                return o if isinstance(o, SR) else SR(o)
            if b is not None and b == 1:
                return self
        if op == "add":
            if a is not None and a == 0:
                return o if isinstance(o, SR) else SR(o)
            if b is not None and b == 0:
                return self
        if op == "sub" and b is not None and b == 0:
            return self
        if op == "div":
            if b is not None:
                if b == 0:
                    _def_fail("div", "division by zero (concrete)")
                    return math.nan
                if b == 1:
                    return self
                return SR(z3.simplify(toz(self) * toz(1 / b)))
            _def_nonzero(o)
            if a is not None and a == 0:
                return SR(F(0))
        x, y = toz(self), toz(o)
        e = {"add": x + y, "sub": x - y, "mul": x * y, "div": x / y}[op]
        return SR(z3.simplify(e))

    def __add__(self, o):
        return self._bin(o, "add")

    def __radd__(self, o):
        return self._bin(o, "add")

    def __sub__(self, o):
        return self._bin(o, "sub")

    def __rsub__(self, o):
        c = conc(o)
        if c is None and not isinstance(o, SR):
            return NotImplemented
        if is_special(c):
            return c
        return SR(o)._bin(self, "sub")

    def __mul__(self, o):
        return self._bin(o, "mul")

    def __rmul__(self, o):
        return self._bin(o, "mul")

    def __truediv__(self, o):
        return self._bin(o, "div")

    def __rtruediv__(self, o):
        c = conc(o)
        if c is None and not isinstance(o, SR):
            return NotImplemented
        if is_special(c):
            raise Abort("unsupported", "inf / symbolic")
        return SR(o)._bin(self, "div")

    def __neg__(self):
        if self.is_conc:
            return SR(-self.v)
        return SR(z3.simplify(-self.v))

    def __pos__(self):
        return self

    def __abs__(self):
        if self.is_conc:
            return SR(abs(self.v))
        return SR(z3.If(self.v >= 0, self.v, -self.v))

    def conjugate(self):
        return self

    @property
    def real(self):
        return self

    @property
    def imag(self):
        return SR(F(0))

    def __pow__(self, n):
        if isinstance(n, _np.ndarray):
            return NotImplemented
        c = conc(n)
        if c is None:
            raise Abort("unsupported", "symbolic exponent")
        if c.denominator == 1:
            k = int(c)
            if k >= 0:
                r = SR(F(1))
                for _ in range(k):
                    r = r * self
                return r
            return SR(F(1)) / (self ** (-k))
        if c == F(1, 2):
            return self.sqrt()
        if abs(float(c) - 1 / 3) < 1e-15:
            return self.cbrt()
        if self.is_conc:
            return SR(F(float(self.v) ** float(c)))
        raise Abort("unsupported", f"power {n}")

    def __rpow__(self, base):
        raise Abort("unsupported", "symbolic exponent")

    def __mod__(self, o):
        if isinstance(o, _np.ndarray):
            return NotImplemented
        m = o if isinstance(o, SR) else SR(o)
        a, b = conc(self), conc(m)
        if a is not None and b is not None:
            return SR(a % b)
        c = ctx()
        mz = toz(m)
        if b is None:
            # symbolic modulus: must be provably positive
            c.add(mz > 0, kind="assume", text="modulus positive (grid period)")
        x = toz(self)
        W = MOD_WINDOW
        if MOD_MODE == "fork":
            for k in sorted(range(-W, W + 1), key=abs):
                if c.branch(z3.And(x >= k * mz, x < (k + 1) * mz)):
                    return SR(z3.simplify(x - k * mz))
            raise Abort("out_of_bound", "wrap count outside the window of ±%d periods" % W)
        # non-forking encoding: w = x - k*m for the k in the window with 0 <= w < m (case split left to the solver)
        key = ("mod", x.get_id(), mz.get_id())
        for k_, x_, m_, w_ in c.apps.setdefault("mod", []):
            if k_ == key and x_.eq(x) and m_.eq(mz):
                return SR(w_)
        outside = z3.Or(x < -W * mz, x >= (W + 1) * mz)
        if c.feasible(outside) != "unsat":
            raise Abort("out_of_bound", "wrap count may lie outside the window of ±%d periods" % W)
        w = c.fresh("mod")
        tx, tm = testval(c, x), testval(c, mz)
        c.tv[w.decl().name()] = (tx % tm) if tm == tm and tx == tx and tm > 0 else float("nan")
        c.add(z3.And(w >= 0, w < mz, z3.Or(*[w == x - k * mz for k in range(-W, W + 1)])), kind="def",
              defines=[w.decl().name()])
        c.apps["mod"].append((key, x, mz, w))
        return SR(w)

    def __rmod__(self, o):
        return SR(o).__mod__(self)

    def __floordiv__(self, o):
        r = self % o
        return (self - r) / o

    # -- comparisons
    def _cmp(self, o, op):
        if isinstance(o, _np.ndarray):
            return NotImplemented
        if isinstance(o, SqrtSR) and not isinstance(self, SqrtSR):
            return o._cmp(self, {"lt": "gt", "le": "ge", "gt": "lt", "ge": "le", "eq": "eq", "ne": "ne"}[op])
        a, b = conc(self), conc(o)
        if b is None and not isinstance(o, SR):
            if op == "eq":
                return False
            if op == "ne":
                return True
            return NotImplemented
        if is_special(b):
            if math.isnan(b):
                return op == "ne"
            pos = b > 0
            return {"lt": pos, "le": pos, "gt": not pos, "ge": not pos, "eq": False, "ne": True}[op]
        if a is not None and b is not None:
            return {"lt": a < b, "le": a <= b, "gt": a > b, "ge": a >= b, "eq": a == b, "ne": a != b}[op]
        x, y = toz(self), toz(o)
        # canonical atom: sum-of-monomials form of (x - y) compared with 0, so that syntactically
        # different spellings of one polynomial meet as the same term in hypotheses and goals
        d = z3.simplify(x - y, som=True)
        if z3.is_rational_value(d):
            c0 = F(d.numerator_as_long(), d.denominator_as_long())
            return {"lt": c0 < 0, "le": c0 <= 0, "gt": c0 > 0, "ge": c0 >= 0, "eq": c0 == 0, "ne": c0 != 0}[op]
        e = {"lt": d < 0, "le": d <= 0, "gt": d > 0, "ge": d >= 0, "eq": d == 0, "ne": d != 0}[op]
        e = z3.simplify(e)
        if z3.is_true(e):
            return True
        if z3.is_false(e):
            return False
        return SB(e)

    def __lt__(self, o):
        return self._cmp(o, "lt")

    def __le__(self, o):
        return self._cmp(o, "le")

    def __gt__(self, o):
        return self._cmp(o, "gt")

    def __ge__(self, o):
        return self._cmp(o, "ge")

    def __eq__(self, o):
        return self._cmp(o, "eq")

    def __ne__(self, o):
        return self._cmp(o, "ne")

    def __hash__(self):
        # one bucket for all reals: dictionaries/sets then decide membership by `==`, which forks when two
        # keys may or may not be equal (sound; a per-term hash would silently treat possibly-equal keys as distinct)
        return 0x5EED

    # -- conversions
    def __float__(self):
        if self.is_conc:
            return float(self.v)
        raise TypeError(f"symbolic value would be realised by float(): {self!r}")

    def __int__(self):
        return sym_int(self)

    def __bool__(self):
        r = self != 0
        return bool(r)

    def __repr__(self):
        return f"SR({self.v})"

    def __format__(self, spec):
        if self.is_conc:
            return format(float(self.v), spec)
        return repr(self)

    # -- functions (numpy ufuncs on object arrays call these by name)
    def sqrt(self):
        if self.is_conc:
            if self.v < 0:
                _def_fail("sqrt", "square root of a negative number")
                return math.nan
            n, d = self.v.numerator, self.v.denominator
            rn, rd = math.isqrt(n), math.isqrt(d)
            if rn * rn == n and rd * rd == d:
                return SR(F(rn, rd))
            if ctx().mode == "exact":
                return SR(F(math.sqrt(self.v)))
        else:
            _def_nonneg(self, "sqrt")
        return SqrtSR(self)

    def cbrt(self):
        if self.is_conc:
            if self.v < 0:
                _def_fail("cbrt", "fractional power of a negative number")
                return math.nan
            n, d = self.v.numerator, self.v.denominator
            rn, rd = round(n ** (1 / 3)), round(d ** (1 / 3))
            for rn_ in (rn - 1, rn, rn + 1):
                for rd_ in (rd - 1, rd, rd + 1):
                    if rn_ >= 0 and rd_ > 0 and rn_ ** 3 == n and rd_ ** 3 == d:
                        return SR(F(rn_, rd_))
            if ctx().mode == "exact":
                return SR(F(float(self.v) ** (1 / 3)))
        else:
            _def_nonneg(self, "cbrt")
        c = ctx()
        key = ("cbrt", toz(self).get_id())
        for k, y in c.apps.setdefault("cbrt", []):
            if k == key:
                return SR(y)
        y = c.fresh("cbrt")
        tq = testval(c, toz(self))
        c.tv[y.decl().name()] = max(tq, 0.0) ** (1 / 3) if tq == tq else float("nan")
        c.add(z3.And(y >= 0, y * y * y == toz(self)), kind="def", defines=[y.decl().name()])
        c.apps["cbrt"].append((key, y))
        return SR(y)

    def _abstract(self, fname, fconc, axioms=None):
        """uninterpreted application with functional consistency (and optional axioms)"""
        c = ctx()
        if self.is_conc and (c.mode == "exact"):
            return SR(F(fconc(float(self.v))))
        x = toz(self)
        apps = c.apps.setdefault(fname, [])
        for ax, ay in apps:
            if ax.get_id() == x.get_id():
                return SR(ay)
        y = c.fresh(fname)
        yn = y.decl().name()
        tx = testval(c, x)
        try:
            c.tv[yn] = float(fconc(tx)) if tx == tx else float("nan")
        except (ValueError, OverflowError):
            c.tv[yn] = float("nan")
        for ax, ay in apps:
            # functional consistency; for `exp` (hundreds of applications in the kernel smoother) pairs whose
            # arguments differ at the path's test point cannot be identically equal and their axiom is omitted
            # (fewer axioms only make proofs harder, never unsound)
            if fname != "exp" or _close_tv(testval(c, ax), tx):
                c.add(z3.Implies(ax == x, ay == y), kind="def", defines=[yn, ay.decl().name()])
        if axioms:
            axioms(c, x, y, yn, apps)
        apps.append((x, y))
        return SR(y)

    def tanh(self):
        if self.is_conc and self.v == 0:
            return SR(F(0))

        def axioms(c, x, y, yn, apps):
            c.add(z3.And(y > -1, y < 1, (x > 0) == (y > 0), (x == 0) == (y == 0)), kind="def", defines=[yn])
            for ax, ay in apps:
                d = [yn, ay.decl().name()]
                c.add(z3.And((ax < x) == (ay < y), (ax == -x) == (ay == -y)), kind="def", defines=d)

        return self._abstract("tanh", math.tanh, axioms)

    def _trig(self, which):
        c = ctx()
        if self.is_conc and c.mode == "exact":
            return SR(F(getattr(math, which)(float(self.v))))
        if self.is_conc and self.v == 0:
            return SR(F(1 if which == "cos" else 0))
        x = toz(self)
        apps = c.apps.setdefault("trig", [])
        for ax, s, co in apps:
            if ax.get_id() == x.get_id():
                return SR(s if which == "sin" else co)
        s, co = c.fresh("sin"), c.fresh("cos")
        names = [s.decl().name(), co.decl().name()]
        tx = testval(c, x)
        c.tv[names[0]], c.tv[names[1]] = (math.sin(tx), math.cos(tx)) if tx == tx else (float("nan"),) * 2
        if TRIG_IDENTITY:
            c.add(s * s + co * co == 1, kind="def", defines=names)
        else:
            c.add(z3.And(s >= -1, s <= 1, co >= -1, co <= 1), kind="def", defines=names)
        for ax, s2, c2 in apps:
            c.add(z3.Implies(ax == x, z3.And(s2 == s, c2 == co)), kind="def",
                  defines=names + [s2.decl().name(), c2.decl().name()])
        apps.append((x, s, co))
        return SR(s if which == "sin" else co)

    def sin(self):
        return self._trig("sin")

    def cos(self):
        return self._trig("cos")

    def exp(self):
        def axioms(c, x, y, yn, apps):
            c.add(y > 0, kind="def", defines=[yn])

        return self._abstract("exp", math.exp, axioms)

    def arccos(self):
        if ctx().check_defined and not (self.is_conc and -1 <= self.v <= 1):
            prove_defined("arccos", And(self >= -1, self <= 1))
        def axioms(c, x, y, yn, apps):
            if ANGLE_AXIOMS:
                t = SR(y)
                ct, st = t.cos(), t.sin()
                c.add(toz(ct) == x, kind="def", defines=[toz(ct).decl().name()])
                c.add(toz(st) >= 0, kind="def", defines=[toz(st).decl().name()])

        return self._abstract("arccos", lambda v: math.acos(max(-1.0, min(1.0, v))), axioms)

    def sign(self):
        if self.is_conc:
            return SR(F((self.v > 0) - (self.v < 0)))
        return SR(z3.If(self.v > 0, z3.RealVal(1), z3.If(self.v < 0, z3.RealVal(-1), z3.RealVal(0))))

    def floor(self):
        k = sym_floor(self)
        return SR(F(k))

    def ceil(self):
        k = sym_floor(-self)
        return SR(F(-k))

    def rint(self):
        """numpy.rint: round to nearest, ties to even (forks on the integer part)"""
        k = sym_floor(self + F(1, 2))
        if k % 2 and bool(self + F(1, 2) == k):     # exact tie and the upper neighbour is odd
            k -= 1
        return SR(F(k))

    def round(self, decimals=0):
        if decimals != 0:
            raise Abort("unsupported", "round to decimals of a symbolic value")
        return self.rint()

    def trunc(self):
        return SR(F(sym_int(self)))

    def arctan2(self, other):
        return arctan2(self, other)

    def hypot(self, other):
        return (self * self + SR(other) * SR(other)).sqrt()

    def isnan(self):
        return False

    def item(self):
        return self

    def copy(self):
        return self


class SqrtSR(SR):
    """sqrt(q) kept lazy: order comparisons square both sides, sqrt(q)**2 -> q; genuine
    arithmetic materialises y >= 0, y*y == q"""

    __slots__ = ("q", "_m")

    def __init__(self, q):
        self.q = q if isinstance(q, SR) else SR(q)
        self._m = None

    @property
    def v(self):
        if self._m is None:
            c = ctx()
            qz = toz(self.q)
            key = ("sqrt", qz.get_id())
            for k, y in c.apps.setdefault("sqrt", []):
                if k == key:
                    self._m = y
                    return y
            y = c.fresh("sqrt")
            c.tv[y.decl().name()] = math.sqrt(max(testval(c, qz), 0.0)) if testval(c, qz) == testval(c, qz) else float("nan")
            c.add(z3.And(y >= 0, y * y == qz), kind="def", defines=[y.decl().name()])
            c.apps["sqrt"].append((key, y))
            self._m = y
        return self._m

    @property
    def is_conc(self):
        return False

    def __pow__(self, n):
        c = conc(n)
        if c == 2:
            return self.q
        if c is not None and c.denominator == 1 and c > 2 and int(c) % 2 == 0:
            return self.q ** (int(c) // 2)
        return SR.__pow__(self, n)

    def __mul__(self, o):
        if isinstance(o, SqrtSR) and toz(o.q).get_id() == toz(self.q).get_id():
            return self.q
        return SR.__mul__(self, o)

    def _cmp(self, o, op):
        if isinstance(o, _np.ndarray):
            return NotImplemented
        if isinstance(o, SqrtSR):
            return self.q._cmp(o.q, op)
        b = conc(o)
        if b is None and not isinstance(o, SR):
            if op == "eq":
                return False
            if op == "ne":
                return True
            return NotImplemented
        if is_special(b):
            return SR(F(0))._cmp(o, op)
        o = o if isinstance(o, SR) else SR(o)
        q, sq = self.q, o * o
        if op == "lt":
            return And(o > 0, q < sq)
        if op == "le":
            return And(o >= 0, q <= sq)
        if op == "gt":
            return Or(o < 0, q > sq)
        if op == "ge":
            return Or(o <= 0, q >= sq)
        if op == "eq":
            return And(o >= 0, q == sq)
        return Or(o < 0, q != sq)

    def __neg__(self):
        return SR(z3.simplify(-self.v))

    def __repr__(self):
        return f"sqrt({self.q!r})"


# --------------------------------------------------------------------------- definedness

def _def_fail(op, msg):
    c = ctx()
    if not c.check_defined:
        return
    c.obligations.append(dict(name=f"def:{op}@{_site()}", verdict="sat", how="concrete", model=None,
                              kind="defined", msg=msg))


def prove_defined(op, cond):
    c = ctx()
    if not c.check_defined:
        return
    if isinstance(cond, (bool, _np.bool_)):
        if not cond:
            _def_fail(op, "argument outside the domain (concrete)")
        return
    key = (op, cond.e.get_id())
    if key in c.defcache and c.defcache[key].eq(cond.e):
        return
    c.defcache[key] = cond.e
    prove(f"def:{op}@{_site()}", cond, kind="defined")
    # continue under the assumption that the operation is defined
    c.add(cond.e, kind="branch")


def _def_nonzero(x):
    prove_defined("div", (x if isinstance(x, SR) else SR(x)) != 0)


def _def_nonneg(x, op):
    prove_defined(op, x >= 0)


def arctan2(y, x):
    """functionally consistent abstraction of atan2 on the pair of argument terms"""
    c = ctx()
    y, x = (y if isinstance(y, SR) else SR(y)), (x if isinstance(x, SR) else SR(x))
    if x.is_conc and y.is_conc and c.mode == "exact":
        return SR(F(math.atan2(float(y.v), float(x.v))))
    if x.is_conc and y.is_conc and y.v == 0 and x.v >= 0:
        return SR(F(0))
    yz, xz = toz(y), toz(x)
    apps = c.apps.setdefault("atan2", [])
    for ay, ax, r in apps:
        if ay.get_id() == yz.get_id() and ax.get_id() == xz.get_id():
            return SR(r)
    r = c.fresh("atan2")
    ty, tx = testval(c, yz), testval(c, xz)
    c.tv[r.decl().name()] = math.atan2(ty, tx) if ty == ty and tx == tx else float("nan")
    for ay, ax, r2 in apps:
        c.add(z3.Implies(z3.And(ay == yz, ax == xz), r2 == r), kind="def",
              defines=[r.decl().name(), r2.decl().name()])
    apps.append((yz, xz, r))
    if ANGLE_AXIOMS:
        p = SR(r)
        cp, sp_ = p.cos(), p.sin()
        h = c.fresh("hyp")
        c.add(z3.And(h >= 0, h * h == xz * xz + yz * yz), kind="def", defines=[h.decl().name()])
        c.add(h * toz(cp) == xz, kind="def", defines=[toz(cp).decl().name()])
        c.add(h * toz(sp_) == yz, kind="def", defines=[toz(sp_).decl().name()])
    return SR(r)


# --------------------------------------------------------------------------- integers from reals

def sym_floor(x, lo=-16, hi=16):
    x = x if isinstance(x, SR) else SR(x)
    if x.is_conc:
        return math.floor(x.v)
    c = ctx()
    xz = toz(x)
    for k in sorted(range(lo, hi + 1), key=abs):
        if c.branch(z3.And(xz >= k, xz < k + 1)):
            return k
    raise Abort("out_of_bound", "floor outside the window")


def sym_int(x):
    """int(): truncation toward zero"""
    x = x if isinstance(x, SR) else SR(x)
    if x.is_conc:
        return int(x.v)
    if bool(x >= 0):
        return sym_floor(x)
    return -sym_floor(-x)


def ite(cond, a, b):
    """non-forking conditional value"""
    if isinstance(cond, (bool, _np.bool_)):
        return a if cond else b
    a = a if isinstance(a, SR) else SR(a)
    b = b if isinstance(b, SR) else SR(b)
    return SR(z3.If(tob(cond), toz(a), toz(b)))


def smin(*xs):
    r = xs[0]
    for x in xs[1:]:
        r = ite(x < r, x, r)
    return r


def smax(*xs):
    r = xs[0]
    for x in xs[1:]:
        r = ite(x > r, x, r)
    return r


# --------------------------------------------------------------------------- harness API (symbolic side)

def var(name, lo=None, hi=None, strict_lo=False, strict_hi=False):
    """declare a symbolic real input (optionally bounded; bounds are recorded assumptions)"""
    c = ctx()
    if c.mode == "exact":
        val = c.witness[name]
        return SR(val if isinstance(val, F) else F(val))
    x = z3.Real(name)
    c.inputs[name] = x
    c.input_meta[name] = (lo, hi)
    if lo is not None:
        c.add(x > toz(lo) if strict_lo else x >= toz(lo), kind="assume")
    if hi is not None:
        c.add(x < toz(hi) if strict_hi else x <= toz(hi), kind="assume")
    return SR(x)


def assume(cond, text=None):
    c = ctx()
    if isinstance(cond, (bool, _np.bool_)):
        if not cond:
            raise Abort("infeasible", f"assumption false: {text}")
        return
    if text and text not in c.assumption_texts:
        c.assumption_texts.append(text)
    c.add(tob(cond), kind="assume", text=text)
    # the assumption may make the path infeasible
    if c.model is None:
        r = c._check(c.solver)
        if r == "unsat":
            raise Abort("infeasible", f"assumption unsatisfiable: {text}")
        if r == "sat":
            c.model = c.solver.model()


def model_inputs(c: Ctx, model):
    out = {}
    for name, x in c.inputs.items():
        v = model.eval(x, model_completion=True)
        out[name] = _z3val(v)
    return out


def _z3val(v):
    if z3.is_rational_value(v):
        return F(v.numerator_as_long(), v.denominator_as_long())
    if z3.is_algebraic_value(v):
        a = v.approx(40)
        return F(a.numerator_as_long(), a.denominator_as_long())
    if z3.is_int_value(v):
        return F(v.as_long())
    s = z3.simplify(v)
    if z3.is_rational_value(s):
        return F(s.numerator_as_long(), s.denominator_as_long())
    raise ValueError(f"cannot read model value {v}")


MARGINS = [F(1, 10), F(1, 100), F(1, 10 ** 4), F(1, 10 ** 7)]


def prove(name, cond, kind="post", margin=None):
    """register obligation `cond` (SB / bool) on the current path and decide it.

    margin: optional callable delta -> SB giving the *violation by at least delta*, used only to
    shape a robust witness after the plain negation was found satisfiable."""
    c = ctx()
    rec = dict(name=name, kind=kind)
    if isinstance(cond, (bool, _np.bool_)):
        if cond:
            rec.update(verdict="unsat", how="concrete")
        else:
            rec.update(verdict="sat", how="concrete")
            if c.mode == "sym":
                try:
                    rec["model"] = model_inputs(c, c.ensure_model())
                except Abort:
                    rec["model"] = None
        c.obligations.append(rec)
        return rec["verdict"] == "unsat"
    e = z3.simplify(tob(cond))
    parts = list(e.children()) if z3.is_and(e) else [e]
    verdict, model, how = "unsat", None, "rewriter"
    for part in parts:  # a conjunction is decided conjunct by conjunct (smaller queries)
        v1, m1, h1 = c.decide(z3.Not(part))
        if v1 == "sat":
            verdict, model, how = v1, m1, h1
            break
        if v1 != "unsat":
            verdict, how = v1, h1
        elif verdict == "unsat":
            how = h1 if how == "rewriter" else how
    if verdict not in ("sat", "unsat") and c.mode == "sym":
        w = testpoint_refutation(c, e)
        if w is not None:
            rec.update(verdict="sat", how="testpoint-after-unknown", model=w)
            c.obligations.append(rec)
            return False
    rec.update(verdict=verdict, how=how)
    if verdict == "sat":
        best = model
        if margin is not None:
            for d in MARGINS:
                try:
                    m = margin(d)
                except Exception:
                    break
                v2, m2, _ = c.decide(tob(m))
                if v2 == "sat":
                    best = m2
                    rec["margin"] = str(d)
                    break
        rec["model"] = model_inputs(c, best)
    c.obligations.append(rec)
    return verdict == "unsat"


def _special_of(x):
    """the float inf/nan token carried by x, else None"""
    if isinstance(x, SR):
        return None
    c = conc(x)
    return c if is_special(c) else None


def prove_eq(name, a, b, kind="post"):
    sa, sb = _special_of(a), _special_of(b)
    if sa is not None or sb is not None:      # IEEE semantics for the non-finite tokens (a finite real never equals them)
        return prove(name, bool(sa is not None and sb is not None and sa == sb), kind=kind)
    a = a if isinstance(a, SR) else SR(a)
    b = b if isinstance(b, SR) else SR(b)
    return prove(name, a == b, kind=kind, margin=lambda d: Or(a - b >= d, b - a >= d))


def prove_le(name, a, b, kind="post"):
    sa, sb = _special_of(a), _special_of(b)
    if sa is not None or sb is not None:
        fa = sa if sa is not None else 0.0
        fb = sb if sb is not None else 0.0
        if (sa is not None and math.isnan(sa)) or (sb is not None and math.isnan(sb)):
            return prove(name, False, kind=kind)
        return prove(name, bool(fa <= fb), kind=kind)
    a = a if isinstance(a, SR) else SR(a)
    b = b if isinstance(b, SR) else SR(b)
    return prove(name, a <= b, kind=kind, margin=lambda d: a - b >= d)


def cover(name, cond=True):
    """reachability / interesting-region goal: must be satisfiable on some explored path"""
    c = ctx()
    if c.covers.get(name) or name in c.known_covers:
        return
    if isinstance(cond, (bool, _np.bool_)):
        c.covers[name] = c.covers.get(name, False) or bool(cond)
        return
    if c.mode != "sym":
        return
    if c.model is not None:
        try:
            if z3.is_true(c.model.eval(tob(cond), model_completion=True)):
                c.covers[name] = True
                return
        except z3.Z3Exception:
            pass
    s = z3.Solver()                      # short, non-incremental query: a cover goal is only a vacuity guard
    s.set("timeout", min(c.qtimeout_ms, 3000))
    s.add(*[e.expr for e in c.pc])
    s.add(tob(cond))
    r = c._check(s)
    c.covers[name] = c.covers.get(name, False) or (r == "sat")


def observe(name, value):
    ctx().observed[name] = value


# --------------------------------------------------------------------------- exploration

def explore(fn, *, max_paths=20000, time_budget=600.0, qtimeout_ms=10000, check_defined=True):
    """run `fn` once per feasible path (DFS over decision prefixes)"""
    global CTX
    work = [[]]
    t0 = time.time()
    st = dict(paths=0, completed=0, infeasible=0, inconclusive=0, out_of_bound=0, unsupported=0,
              queries=0, solver_s=0.0, unknown_branches=0, obligations=[], covers={}, errors=[],
              assumptions=[], truncated=False, exceptions=[], notes=[], sample_paths=[])
    while work:
        if st["paths"] >= max_paths or time.time() - t0 > time_budget:
            st["truncated"] = True
            st["pending"] = len(work)
            break
        prefix = work.pop()
        c = CTX = Ctx(prefix, qtimeout_ms=qtimeout_ms)
        c.check_defined = check_defined
        c.known_covers = {k for k, v in st["covers"].items() if v}
        st["paths"] += 1
        try:
            fn()
            st["completed"] += 1
        except Abort as e:
            key = {"infeasible": "infeasible", "unknown": "inconclusive", "out_of_bound": "out_of_bound",
                   "unsupported": "unsupported"}.get(e.kind, "inconclusive")
            st[key] += 1
            if key in ("unsupported", "out_of_bound", "inconclusive") and len(st["notes"]) < 20:
                st["notes"].append(f"{e.kind}: {e.msg}")
        except Exception as e:  # exception escaping the harness body on a feasible path
            import traceback
            tb = traceback.extract_tb(e.__traceback__)
            root = os.environ.get("VERIF_REPO", "/repo")
            site = next((f"{os.path.basename(f.filename)}:{f.lineno}:{f.name}" for f in reversed(tb)
                         if f.filename.startswith(root)), f"{os.path.basename(tb[-1].filename)}:{tb[-1].lineno}")
            try:
                m = model_inputs(c, c.ensure_model())
            except BaseException:
                m = None
            st["exceptions"].append(dict(type=type(e).__name__, msg=str(e)[:300], site=site, model=m,
                                         decisions=len(c.decisions)))
        finally:
            CTX = None
        st["queries"] += c.queries
        st["solver_s"] += c.qtime
        st["unknown_branches"] += c.unknown_branches
        st["obligations"].extend(c.obligations)
        for k, v in c.covers.items():
            st["covers"][k] = st["covers"].get(k, False) or v
        for t in c.assumption_texts:
            if t not in st["assumptions"]:
                st["assumptions"].append(t)
        if len(st["sample_paths"]) < 3 and c.obligations:
            st["sample_paths"].append(dict(decisions=len(c.decisions),
                                           obligations=[o["name"] for o in c.obligations][:12]))
        work.extend(c.worklist)
    st["wall_s"] = time.time() - t0
    return st


def run_exact(fn, witness):
    """run `fn` once with concrete Fraction inputs through the same engine and loaded code"""
    global CTX
    c = CTX = Ctx((), mode="exact", witness=witness)
    c.check_defined = True
    try:
        fn()
        return c
    finally:
        CTX = None
