import types
from .. import core
module = types.ModuleType("h5store")
