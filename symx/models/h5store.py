"""h5py as seen by the code under test: an in-memory store.

file path -> ordered mapping key -> dataset (deep copy of the structured array written, or the empty
`shape=()` placeholder) with an attribute dictionary; `keys()` iterates in alphabetical order as h5py does
by default; attribute values come back as stored.  Everything about HDF5 itself (type conversion, on-disk
layout) is outside the model; the float replays use the real h5py."""
import types

import numpy as _np

from .. import core
from ..records import SymRecArray, SymRecord

STORE = {}


class _Attrs(dict):
    pass


class EmptyDataset:
    """dataset created with shape=() and no data"""
    shape = ()
    ndim = 0

    def __init__(self):
        self.attrs = _Attrs()

    def __iter__(self):
        raise TypeError("Can't iterate over a scalar dataset")

    def __len__(self):
        raise TypeError("Attempt to take len() of scalar dataset")

    def __getitem__(self, k):
        raise ValueError("Field names only allowed for compound types")


class Dataset(SymRecArray):
    def __init__(self, arr):
        cp = arr.copy()
        SymRecArray.__init__(self, 0, cp.dtype, cp._recs)
        self.attrs = _Attrs()

    def __iter__(self):
        return iter([r.copy() for r in self._recs])      # reading yields fresh rows

    def __getitem__(self, k):
        v = SymRecArray.__getitem__(self, k)
        return v.copy() if hasattr(v, "copy") else v


class File:
    def __init__(self, path, mode="r", **kw):
        self.path = str(path)
        self.mode = mode
        if mode in ("w", "w-", "x"):
            STORE[self.path] = dict(data={}, attrs=_Attrs())
        elif mode in ("r", "r+", "a"):
            if self.path not in STORE:
                if mode == "a":
                    STORE[self.path] = dict(data={}, attrs=_Attrs())
                else:
                    raise FileNotFoundError(f"Unable to open file {self.path}")
        else:
            raise ValueError(f"invalid mode {mode}")
        self._f = STORE[self.path]

    def __enter__(self):
        return self

    def __exit__(self, *a):
        return False

    def close(self):
        pass

    @property
    def attrs(self):
        return self._f["attrs"]

    def keys(self):
        return sorted(self._f["data"].keys())

    def __iter__(self):
        return iter(self.keys())

    def __len__(self):
        return len(self._f["data"])

    def __contains__(self, k):
        return k in self._f["data"]

    def __getitem__(self, k):
        return self._f["data"][k]

    def create_dataset(self, name, shape=None, dtype=None, data=None, **kw):
        if self.mode == "r":
            raise ValueError("Unable to create dataset (file is read-only)")
        if name in self._f["data"]:
            raise ValueError(f"Unable to create dataset (name already exists): {name}")
        if data is None:
            if shape not in ((), None):
                raise core.Abort("unsupported", "h5 model: create_dataset with a shape and no data")
            ds = EmptyDataset()
        elif isinstance(data, SymRecArray):
            ds = Dataset(data)
        else:
            raise core.Abort("unsupported", f"h5 model: dataset of type {type(data).__name__}")
        self._f["data"][name] = ds
        return ds


module = types.ModuleType("h5py")
module.File = File
module.STORE = STORE
