"""pde.tools.math.SmoothData1D by its definition (py-pde 0.58): normalised Gaussian weights
exp(-(x_i - x)^2 / (2 sigma^2)); `exp` is an abstraction symbol (positive, functionally consistent per
argument term)"""
from fractions import Fraction as F

import numpy as _np

from .. import core
from ..core import SR
from ..npshim import lift, objarr, symnp


class SmoothData1D:
    sigma_auto_scale = 10

    def __init__(self, x, y, sigma=None):
        self.x = _np.ravel(objarr(_np.asarray(x, dtype=object)))
        self.y = _np.ravel(objarr(_np.asarray(y, dtype=object)))
        if self.x.shape != self.y.shape:
            raise ValueError("`x` and `y` must have equal number of elements")
        if sigma is None:
            xs = list(self.x)
            self.sigma = self.sigma_auto_scale * (core.smax(*xs) - core.smin(*xs)) / len(xs)
        else:
            self.sigma = lift(sigma)

    @property
    def bounds(self):
        xs = list(self.x)
        return core.smin(*xs), core.smax(*xs)

    def __contains__(self, x):
        lo, hi = self.bounds
        return bool(core.And(lo <= x, x <= hi))

    def __call__(self, xs):
        xs = symnp.asarray(xs)
        shape = xs.shape
        q = _np.ravel(xs)
        scale = F(1, 2) / (self.sigma * self.sigma)
        res = _np.empty(len(q), dtype=object)
        for j, xq in enumerate(q):
            xq = lift(xq)
            ws = []
            for xi in self.x:
                d = lift(xi) - xq
                ws.append(lift(-(scale * d * d)).exp())
            tot = ws[0]
            for w in ws[1:]:
                tot = tot + w
            num = SR(F(0))
            for w, yi in zip(ws, self.y):
                num = num + lift(yi) * w
            res[j] = num / tot         # all weights are positive symbols: the sum is positive
        return res.reshape(shape)

    def derivative(self, xs):
        raise core.Abort("unsupported", "SmoothData1D.derivative")
