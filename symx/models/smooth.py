from .. import core
class SmoothData1D:
    def __init__(self, *a, **k):
        raise core.Abort("unsupported", "SmoothData1D not installed")
