from .. import core
def histogram(*a, **k):
    raise core.Abort("unsupported", "histogram model not installed")
