"""np.histogram(a, bins=n) as seen by the code under test: the exact definition on symbolic values.

`bins` equal-width bins over [min, max]; bin k holds edge_k <= x < edge_{k+1}, the last bin includes the
right edge (numpy's convention).  min/max and the bin of every value are found by comparisons, each of
which forks only when both outcomes are feasible.  For constant data numpy widens the range to
[x - 1/2, x + 1/2]."""
from fractions import Fraction as F

import builtins

import numpy as _np

from .. import core
from ..core import SR
from ..npshim import lift, has_sym


def histogram(a, bins=10, range=None, density=None, weights=None):
    arr = _np.asarray(list(a) if not isinstance(a, _np.ndarray) else a)
    if arr.dtype != object and not has_sym(arr):
        return _np.histogram(arr, bins=bins, range=range, density=density, weights=weights)
    if range is not None or density or weights is not None or not isinstance(bins, (int, _np.integer)):
        raise core.Abort("unsupported", "np.histogram with range/density/weights/explicit edges")
    vals = [lift(v) for v in arr.reshape(-1)]
    n = int(bins)
    if not vals:
        raise core.Abort("unsupported", "np.histogram of empty data")
    mn = mx = vals[0]
    for v in vals[1:]:
        if bool(v < mn):
            mn = v
        if bool(v > mx):
            mx = v
    if bool(mn == mx):
        mn, mx = mn - F(1, 2), mx + F(1, 2)
    width = mx - mn
    edges = _np.empty(n + 1, dtype=object)
    for k in builtins.range(n + 1):
        edges[k] = mn + width * F(k, n)
    edges[n] = mx
    counts = _np.zeros(n, dtype=int)
    for v in vals:
        lo, hi = 0, n          # invariant: edges[lo] <= v < edges[hi]  (hi == n: v <= mx)
        while hi - lo > 1:
            mid = (lo + hi) // 2
            if bool(v < edges[mid]):
                hi = mid
            else:
                lo = mid
        counts[lo] += 1
    return counts, edges
