"""scipy.spatial: cdist (metric applied pairwise, scipy's exceptions for degenerate input) and a
contract model of cKDTree.query(k=2)"""
from __future__ import annotations

import numpy as _np

from .. import core
from ..core import SR
from ..npshim import objarr, lift, _Linalg, symnp


class distance:
    @staticmethod
    def cdist(XA, XB, metric="euclidean", **kw):
        XA = [objarr(a) for a in XA]
        XB = [objarr(b) for b in XB]
        if len(XA) == 0 or _np.ndim(XA[0]) != 1:
            raise ValueError("XA must be a 2-dimensional array.")
        if len(XB) == 0 or _np.ndim(XB[0]) != 1:
            raise ValueError("XB must be a 2-dimensional array.")
        if len(XA[0]) != len(XB[0]):
            raise ValueError("XA and XB must have the same number of columns "
                             "(i.e. feature dimension.)")
        out = _np.empty((len(XA), len(XB)), dtype=object)
        for i, a in enumerate(XA):
            for j, b in enumerate(XB):
                if callable(metric):
                    out[i, j] = lift(metric(a, b))
                elif metric == "euclidean":
                    out[i, j] = _Linalg.norm(a - b)
                else:
                    raise core.Abort("unsupported", f"cdist metric {metric}")
        return out


class cKDTree:
    """query(x, 2): for every point the two smallest distances (itself first) with attaining
    indices; ties are resolved by the first minimal index (scipy leaves them unspecified)"""

    def __init__(self, data, **k):
        self.data = data

    def query(self, x, k=1, **kw):
        if k != 2:
            raise core.Abort("unsupported", "cKDTree.query with k != 2")
        n = len(self.data)
        dist = _np.empty((len(x), 2), dtype=object)
        index = _np.empty((len(x), 2), dtype=int)
        for i in range(len(x)):
            best, bj = None, None
            for j in range(n):
                if j == i:
                    continue
                d = _Linalg.norm(objarr(x[i]) - objarr(self.data[j]))
                if best is None or bool(d < best):
                    best, bj = d, j
            dist[i, 0], index[i, 0] = SR(0), i
            dist[i, 1], index[i, 1] = best, bj
        return dist, index


KDTree = cKDTree
