"""Models of the py-pde 0.58 grids (only the surface /repo/droplets touches), written from the
library source so that symbolic geometry can flow through.  They reproduce the library's actual
behaviour (e.g. the cylindrical `difference_vector` wraps the *y* component with the z-period),
not an idealisation.  Validated against the installed py-pde by symx/validate_models.py.
"""
from __future__ import annotations

import itertools
from fractions import Fraction as F

import numpy as _np

from .. import core
from ..core import SR
from ..npshim import lift, objarr, symnp, has_sym, _Linalg


class DimensionError(ValueError):
    pass


class DomainError(ValueError):
    pass


class PeriodicityError(RuntimeError):
    pass


class Cuboid:
    def __init__(self, pos, size, mutable=True):
        self.pos = objarr(pos)
        self.size = objarr(size)

    @classmethod
    def from_points(cls, p1, p2, **k):
        p1, p2 = objarr(p1), objarr(p2)
        lo = _np.empty(p1.shape, dtype=object)
        hi = _np.empty(p1.shape, dtype=object)
        for i in range(p1.size):
            lo[i] = core.smin(p1[i], p2[i])
            hi[i] = core.smax(p1[i], p2[i])
        return cls(lo, hi - lo)

    @classmethod
    def from_bounds(cls, bounds, **k):
        b = objarr(bounds)
        return cls(b[:, 0], b[:, 1] - b[:, 0])

    @property
    def dim(self):
        return len(self.pos)

    @property
    def bounds(self):
        return tuple((self.pos[i], self.pos[i] + self.size[i]) for i in range(self.dim))

    @property
    def corners(self):
        return self.pos, self.pos + self.size

    @property
    def volume(self):
        return _np.prod(self.size)

    def buffer(self, amount=0, inplace=False):
        amount = objarr(_np.broadcast_to(_np.asarray(amount, dtype=object), self.pos.shape))
        if inplace:
            self.pos = self.pos - amount
            self.size = self.size + 2 * amount
            return self
        return Cuboid(self.pos - amount, self.size + 2 * amount)

    def copy(self):
        return Cuboid(self.pos.copy(), self.size.copy())

    @property
    def centroid(self):
        return self.pos + self.size / 2

    def contains_point(self, points):
        # pde.tools.cuboid.Cuboid.contains_point: np.all(c1 <= points, -1) & np.all(points <= c2, -1)
        pts = objarr(points)
        if len(pts) == 0:
            return pts
        if pts.shape[-1] != self.dim:
            raise ValueError(f"Last dimension of `points` must agree with cuboid dimension {self.dim}")
        c1, c2 = self.corners
        flat = pts.reshape(-1, self.dim)
        out = _np.empty(flat.shape[0], dtype=object)
        for i in range(flat.shape[0]):
            out[i] = core.And(*[core.And(c1[k] <= flat[i, k], flat[i, k] <= c2[k]) for k in range(self.dim)])
        if pts.ndim == 1:
            return out[0]
        return out.reshape(pts.shape[:-1])

    def __add__(self, other):
        a1, a2 = self.corners
        b1, b2 = other.corners
        lo = _np.empty(a1.shape, dtype=object)
        hi = _np.empty(a1.shape, dtype=object)
        for i in range(a1.size):
            lo[i] = core.smin(a1[i], b1[i])
            hi[i] = core.smax(a2[i], b2[i])
        return Cuboid(lo, hi - lo)

    def __eq__(self, other):
        return bool(core.And(*[a == b for a, b in zip(self.pos, other.pos)],
                             *[a == b for a, b in zip(self.size, other.size)]))


class GridBase:
    coordinate_constraints: list = []
    _axes_symmetric: tuple = ()
    cuboid = None

    def _finish(self, dim, shape, periodic, bounds):
        self.dim = dim
        self._axes_described = tuple(i for i in range(dim) if i not in self._axes_symmetric)
        self.num_axes = len(self._axes_described)
        self.shape = tuple(int(s) for s in shape)
        self.periodic = list(periodic)
        self.axes_bounds = tuple((lift(a), lift(b)) for a, b in bounds)
        disc, coords = [], []
        for (a, b), n in zip(self.axes_bounds, self.shape):
            dx = (b - a) / n
            disc.append(dx)
            coords.append(objarr([(SR(F(2 * i + 1, 2))) * dx + a for i in range(n)]))
        self.discretization = objarr(disc)
        self.axes_coords = tuple(coords)
        cc = _np.empty(self.shape + (self.num_axes,), dtype=object)
        for idx in _np.ndindex(*self.shape):
            for a in range(self.num_axes):
                cc[idx + (a,)] = coords[a][idx[a]]
        self.cell_coords = cc

    @property
    def num_cells(self):
        return int(_np.prod(self.shape))

    @property
    def typical_discretization(self):
        return self.discretization.sum() / len(self.discretization)

    # -- coordinate conversion
    def _coords_full(self, points, value=0):
        if self.num_axes == self.dim:
            return points
        res = _np.empty(points.shape[:-1] + (self.dim,), dtype=object)
        j = 0
        for i in range(self.dim):
            if i in self._axes_described:
                res[..., i] = points[..., j]
                j += 1
            else:
                res[..., i] = SR(F(0))
        return res

    def _coords_symmetric(self, points):
        if points.shape[-1] != self.dim:
            raise DimensionError("Points need to be specified in full coordinates")
        return points[..., list(self._axes_described)]

    def point_to_cartesian(self, points):
        return self._pos_to_cart(self._coords_full(points))

    def point_from_cartesian(self, points):
        return self._coords_symmetric(self._pos_from_cart(points))

    def transform(self, coordinates, source, target):
        if source == "cartesian":
            cart = symnp.atleast_1d(coordinates)
            if cart.shape[-1] != self.dim:
                raise DimensionError(f"Require {self.dim} cartesian coordinates")
            if target == "cartesian":
                return coordinates
            g = self.point_from_cartesian(cart)
            if target == "grid":
                return g
            if target == "cell":
                return (g - self._cmin()) / self.discretization
        elif source == "cell":
            cells = symnp.atleast_1d(coordinates)
            if cells.shape[-1] != self.num_axes:
                raise DimensionError(f"Require {self.num_axes} cell coordinates")
            if target == "cell":
                return coordinates
            g = self._cmin() + cells * self.discretization
            if target == "grid":
                return g
            if target == "cartesian":
                return self.point_to_cartesian(g)
        elif source == "grid":
            g = symnp.atleast_1d(coordinates)
            if g.shape[-1] != self.num_axes:
                raise DimensionError(f"Require {self.num_axes} grid coordinates")
            if target == "cartesian":
                return self.point_to_cartesian(g)
            if target == "cell":
                return (g - self._cmin()) / self.discretization
            if target == "grid":
                return g
        else:
            raise ValueError(f"Unknown source coordinates `{source}`")
        raise ValueError(f"Unknown target coordinates `{target}`")

    def _cmin(self):
        return objarr([a for a, _ in self.axes_bounds])

    def contains_point(self, points, *, coords="cartesian"):
        # pde GridBase.contains_point: np.all((cell >= 0) & (cell <= shape), axis=-1), both ends inclusive
        cells = objarr(self.transform(points, source=coords, target="cell"))
        flat = cells.reshape(-1, cells.shape[-1])
        out = _np.empty(flat.shape[0], dtype=object)
        for i in range(flat.shape[0]):
            out[i] = core.And(*[core.And(flat[i, k] >= 0, flat[i, k] <= self.shape[k]) for k in range(flat.shape[1])])
        if cells.ndim == 1:
            return out[0]
        return out.reshape(cells.shape[:-1])

    # -- metric
    def _difference_vector(self, p1, p2, *, coords, periodic, axes_bounds):
        x1 = self.transform(p1, source=coords, target="cartesian")
        x2 = self.transform(p2, source=coords, target="cartesian")
        if axes_bounds is None:
            axes_bounds = self.axes_bounds
        diff = symnp.atleast_1d(x2) - symnp.atleast_1d(x1)
        diff = objarr(diff)
        assert diff.shape[-1] == self.dim
        for i, per in enumerate(periodic):
            if per:
                size = axes_bounds[i][1] - axes_bounds[i][0]
                col = diff[..., i]
                if isinstance(col, _np.ndarray):
                    out = _np.empty(col.shape, dtype=object)
                    for idx in _np.ndindex(*col.shape):
                        out[idx] = (col[idx] + size / 2) % size - size / 2
                    diff[..., i] = out
                else:
                    diff[..., i] = (col + size / 2) % size - size / 2
        return diff

    def difference_vector(self, p1, p2, *, coords="grid"):
        return self._difference_vector(p1, p2, coords=coords, periodic=[False] * self.dim, axes_bounds=None)

    def distance(self, p1, p2, *, coords="grid"):
        return _Linalg.norm(self.difference_vector(p1, p2, coords=coords), axis=-1)

    def normalize_point(self, point, *, reflect=False):
        point = symnp.array(point, dtype=float)
        if point.size == 0:
            return symnp.zeros((0, self.num_axes))
        if point.ndim == 0:
            if self.num_axes > 1:
                raise DimensionError(f"Point {point} is not of dimension {self.num_axes}")
        elif point.shape[-1] != self.num_axes:
            raise DimensionError(
                f"Array of shape {point.shape} does not describe points of dimension {self.num_axes}")
        if reflect:
            raise core.Abort("unsupported", "normalize_point(reflect=True)")
        for i in range(self.num_axes):
            if self.periodic[i]:
                lo, hi = self.axes_bounds[i]
                if self.num_axes == 1:
                    f = point.reshape(-1)
                    for j in range(f.size):
                        f[j] = (f[j] - lo) % (hi - lo) + lo
                else:
                    col = point[..., i]
                    if isinstance(col, _np.ndarray):
                        out = _np.empty(col.shape, dtype=object)
                        for idx in _np.ndindex(*col.shape):
                            out[idx] = (col[idx] - lo) % (hi - lo) + lo
                        point[..., i] = out
                    else:
                        point[..., i] = (col - lo) % (hi - lo) + lo
        return point

    @property
    def cell_volumes(self):
        import functools
        vols = functools.reduce(_np.outer, [_np.atleast_1d(v) for v in self.cell_volume_data])
        return _np.broadcast_to(vols.reshape([len(_np.atleast_1d(v)) for v in self.cell_volume_data]), self.shape)

    def iter_mirror_points(self, point, with_self=False, only_periodic=True):
        raise core.Abort("unsupported", "iter_mirror_points")

    def __eq__(self, other):
        return self is other

    def __hash__(self):
        return id(self)


class CartesianGrid(GridBase):
    def __init__(self, bounds, shape, periodic=False):
        b = objarr(bounds) if has_sym(bounds) else objarr(_np.array(bounds, ndmin=1, dtype=float))
        if b.ndim == 1:
            b = _np.stack([objarr(_np.zeros(len(b))), b], axis=-1)
        dim = b.shape[0]
        if isinstance(shape, (int, _np.integer)):
            shape = (int(shape),) * dim
        shape = tuple(shape)
        if len(shape) == 1 and dim > 1:
            shape = shape * dim
        if dim != len(shape):
            raise DimensionError("Dimension of `bounds` and `shape` are not compatible")
        if isinstance(periodic, (bool, _np.bool_)):
            periodic = [bool(periodic)] * dim
        elif len(periodic) != dim:
            raise DimensionError("Number of axes with specified periodicity does not match grid dimension")
        self._finish(dim, shape, [bool(p) for p in periodic], [(b[i, 0], b[i, 1]) for i in range(dim)])
        self.cuboid = Cuboid.from_bounds([[b[i, 0], b[i, 1]] for i in range(dim)])

    def _pos_to_cart(self, p):
        return p

    def _pos_from_cart(self, p):
        return p

    @property
    def volume(self):
        return self.cuboid.volume

    @property
    def cell_volume_data(self):
        return tuple(self.discretization)

    def difference_vector(self, p1, p2, *, coords="grid"):
        return self._difference_vector(p1, p2, coords=coords, periodic=self.periodic, axes_bounds=self.axes_bounds)

    def get_random_point(self, *, boundary_distance=0, coords="cartesian", rng=None):
        if boundary_distance != 0:
            raise core.Abort("unsupported", "boundary_distance")
        point = self.cuboid.pos + rng.random(self.dim) * self.cuboid.size
        if coords in ("cartesian", "grid"):
            return point
        return self.transform(point, "grid", "cell")


class UnitGrid(CartesianGrid):
    def __init__(self, shape, periodic=False):
        if isinstance(shape, (int, _np.integer)):
            shape = (int(shape),)
        super().__init__([(0, int(n)) for n in shape], shape, periodic)


class SphericalSymGridBase(GridBase):
    def __init__(self, radius, shape):
        if isinstance(shape, (tuple, list)):
            if len(shape) != 1:
                raise ValueError("`shape` must be a single number")
            shape = shape[0]
        try:
            r_in, r_out = radius
        except TypeError:
            r_in, r_out = 0, radius
        self._finish(self._dim, (int(shape),), [False], [(r_in, r_out)])

    @property
    def has_hole(self):
        return bool(self.axes_bounds[0][0] > 0)

    @property
    def radius(self):
        r_in, r_out = self.axes_bounds[0]
        return r_out if bool(r_in == 0) else (r_in, r_out)

    @property
    def cell_volume_data(self):
        from . import pdefuncs
        dr = self.discretization[0]
        rs = self.axes_coords[0]
        hi = pdefuncs.volume_from_radius(rs + dr / 2, dim=self.dim)
        lo = pdefuncs.volume_from_radius(rs - dr / 2, dim=self.dim)
        return (hi - lo,)

    @property
    def volume(self):
        from . import pdefuncs
        r_in, r_out = self.axes_bounds[0]
        return pdefuncs.volume_from_radius(r_out, self.dim) - pdefuncs.volume_from_radius(r_in, self.dim)


class PolarSymGrid(SphericalSymGridBase):
    _dim = 2
    _axes_symmetric = (1,)
    coordinate_constraints = [0, 1]

    def _pos_to_cart(self, p):  # (r, phi=0) -> (r, 0)
        out = _np.empty(p.shape[:-1] + (2,), dtype=object)
        out[..., 0] = p[..., 0]
        out[..., 1] = SR(F(0))
        return out

    def _pos_from_cart(self, p):
        out = _np.empty(p.shape[:-1] + (2,), dtype=object)
        out[..., 0] = _Linalg.norm(p, axis=-1)
        out[..., 1] = SR(F(0))
        return out


class SphericalSymGrid(SphericalSymGridBase):
    _dim = 3
    _axes_symmetric = (1, 2)
    coordinate_constraints = [0, 1, 2]

    def _pos_to_cart(self, p):  # (r, 0, 0) -> (0, 0, r)
        out = _np.empty(p.shape[:-1] + (3,), dtype=object)
        out[..., 0] = SR(F(0))
        out[..., 1] = SR(F(0))
        out[..., 2] = p[..., 0]
        return out

    def _pos_from_cart(self, p):
        out = _np.empty(p.shape[:-1] + (3,), dtype=object)
        out[..., 0] = _Linalg.norm(p, axis=-1)
        out[..., 1] = SR(F(0))
        out[..., 2] = SR(F(0))
        return out


class CylindricalSymGrid(GridBase):
    _axes_symmetric = (1,)
    coordinate_constraints = [0, 1]

    def __init__(self, radius, bounds_z, shape, periodic_z=False):
        if isinstance(shape, (int, _np.integer)):
            shape = (int(shape), int(shape))
        if len(shape) != 2:
            raise DimensionError("`shape` must be two integers")
        try:
            r_in, r_out = radius
        except TypeError:
            r_in, r_out = 0, radius
        self._finish(3, tuple(shape), [False, bool(periodic_z)], [(r_in, r_out), tuple(bounds_z)])

    @property
    def has_hole(self):
        return bool(self.axes_bounds[0][0] > 0)

    @property
    def length(self):
        return self.axes_bounds[1][1] - self.axes_bounds[1][0]

    @property
    def volume(self):
        r_in, r_out = self.axes_bounds[0]
        return symnp.pi * self.length * (r_out * r_out - r_in * r_in)

    @property
    def cell_volume_data(self):
        dr, dz = self.discretization
        rs = self.axes_coords[0]
        return (2 * symnp.pi * dr * rs, dz)

    def _pos_to_cart(self, p):  # (r, phi=0, z) -> (r, 0, z)
        out = _np.empty(p.shape[:-1] + (3,), dtype=object)
        out[..., 0] = p[..., 0]
        out[..., 1] = SR(F(0))
        out[..., 2] = p[..., 2]
        return out

    def _pos_from_cart(self, p):
        out = _np.empty(p.shape[:-1] + (3,), dtype=object)
        out[..., 0] = _Linalg.norm(p[..., :2], axis=-1)
        out[..., 1] = SR(F(0))
        out[..., 2] = p[..., 2]
        return out

    def difference_vector(self, p1, p2, *, coords="grid"):
        # as in py-pde 0.58: periodic=[False, periodic_z] is applied to the *Cartesian* components
        return self._difference_vector(p1, p2, coords=coords, periodic=self.periodic, axes_bounds=self.axes_bounds)
