"""scipy.ndimage as seen by the code under test.  label / find_objects / binary_dilation are the
real functions (their inputs are concrete masks); center_of_mass / sum are exact rational
re-implementations so that half-cell bounds are not blurred by float rounding."""
from __future__ import annotations

from fractions import Fraction as F

import numpy as _np
from scipy import ndimage as _ndi

from ..core import SR
from ..npshim import lift, objarr


def _concrete_mask(m):
    a = _np.asarray(m)
    if a.dtype == object:
        out = _np.empty(a.shape, dtype=bool)
        fo, fi = out.reshape(-1), a.reshape(-1)
        for i in range(fi.size):
            v = fi[i]
            fo[i] = bool(v != 0) if isinstance(v, SR) else bool(v)
        return out
    return a


def label(mask, structure=None, output=None):
    return _ndi.label(_concrete_mask(mask), structure=structure)


find_objects = _ndi.find_objects
generate_binary_structure = _ndi.generate_binary_structure
iterate_structure = _ndi.iterate_structure


def binary_erosion(mask, structure=None, iterations=1, **k):
    return _ndi.binary_erosion(_concrete_mask(mask), structure=structure, iterations=int(iterations), **k)


def binary_fill_holes(mask, structure=None, **k):
    return _ndi.binary_fill_holes(_concrete_mask(mask), structure=structure, **k)


def binary_dilation(mask, structure=None, iterations=1, **k):
    return _ndi.binary_dilation(_concrete_mask(mask), structure=structure, iterations=int(iterations), **k)


def _weights(data):
    a = _np.asarray(data)
    if a.dtype == bool:
        return a.astype(int)
    return a


def center_of_mass(data, labels=None, index=None):
    w = _weights(data)
    if labels is not None and w.shape != _np.shape(labels):
        w = _np.broadcast_to(w, _np.shape(labels))
    res = []
    idxs = list(index) if index is not None else None
    single = False
    if idxs is None:
        raise NotImplementedError
    for i in idxs:
        pts = _np.argwhere(labels == i)
        tot = SR(F(0))
        acc = [SR(F(0))] * w.ndim
        for p in pts:
            wt = lift(w[tuple(p)])
            if w.dtype != object:
                wt = SR(F(int(wt.v))) if float(wt.v).is_integer() else wt
            tot = tot + wt
            acc = [a + wt * int(c) for a, c in zip(acc, p)]
        res.append(tuple(a / tot for a in acc))
    return res


def sum_labels(data, labels=None, index=None):
    w = _weights(data)
    if w.shape != _np.shape(labels):   # scipy broadcasts input against labels
        w = _np.broadcast_to(w, _np.shape(labels))
    out = []
    for i in index:
        pts = _np.argwhere(labels == i)
        tot = SR(F(0))
        for p in pts:
            tot = tot + lift(w[tuple(p)])
        out.append(tot)
    a = _np.empty(len(out), dtype=object)
    for k, v in enumerate(out):
        a[k] = v
    return a


sum = sum_labels


def gaussian_filter1d(*a, **k):
    from .. import core
    raise core.Abort("unsupported", "gaussian_filter1d")
