import types
from .. import core
module = types.ModuleType("executor")
