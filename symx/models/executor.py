"""concurrent.futures as seen by the code under test: a process-pool *model*.

* every task runs on pickled copies of the callable and of its arguments (`pickle_copy`: the pickle protocol of the
  objects - `__reduce_ex__`, `__getstate__` / `__setstate__` - is followed; a numpy record that travels as such comes
  back *detached*: numpy restores it as a scalar whose field assignment has no effect): mutations made by a task are
  invisible to the parent and to other tasks;
* tasks *execute* in a completion order chosen by the harness (CONFIG["order"], a permutation applied per
  batch of outstanding tasks), `Executor.map` nevertheless yields results in submission order and
  `as_completed` yields them in completion order - the only two facts the model captures.
Real scheduling, pickling failures and worker state are outside the model."""
import copy
import types

CONFIG = {"order": None, "log": []}


def _perm(n):
    o = CONFIG.get("order")
    if o is None:
        return list(range(n))
    p = [i for i in o if i < n]
    return p + [i for i in range(n) if i not in p]


def pickle_copy(x, memo=None):
    """what a pickle round trip gives, for the kinds of objects the repo sends to workers"""
    import numpy as np
    from fractions import Fraction
    from ..core import SR, SB
    from ..records import SymRecord, SymRecArray
    memo = {} if memo is None else memo
    if id(x) in memo:
        return memo[id(x)]
    if x is None or isinstance(x, (bool, int, float, complex, str, bytes, Fraction, SR, SB, type, types.FunctionType,
                                   types.BuiltinFunctionType)):
        return x
    if isinstance(x, SymRecord):
        r = SymRecord(x)
        object.__setattr__(r, "_detached", True)     # numpy: np.record restored from a pickle; assigning its fields is lost
        memo[id(x)] = r
        return r
    if isinstance(x, SymRecArray):
        return x.copy()
    if isinstance(x, np.ndarray):
        if x.dtype == object:
            out = np.empty(x.shape, dtype=object)
            for idx in np.ndindex(*x.shape):
                out[idx] = pickle_copy(x[idx], memo)
            return out
        return x.copy()
    if type(x) in (list, tuple, set, frozenset):
        return type(x)(pickle_copy(v, memo) for v in x)
    if type(x) is dict:
        return {pickle_copy(k, memo): pickle_copy(v, memo) for k, v in x.items()}
    cls = type(x)
    if cls.__module__.startswith(("droplets", "symx.models.grids", "symx.models.fields")) or hasattr(cls, "__slots__"):
        try:
            red = x.__reduce_ex__(2)
        except Exception:
            return copy.deepcopy(x)
        if isinstance(red, tuple) and len(red) >= 2 and getattr(red[0], "__name__", "") == "__newobj__":
            y = cls.__new__(cls, *red[1][1:])
            memo[id(x)] = y
            state = pickle_copy(red[2], memo) if len(red) > 2 and red[2] is not None else None
            if state is not None:
                if hasattr(y, "__setstate__") and "__setstate__" in {k for c in cls.__mro__ for k in vars(c)} - set(vars(object)):
                    y.__setstate__(state)
                else:
                    slots = None
                    if isinstance(state, tuple) and len(state) == 2:
                        state, slots = state
                    for k, v in (state or {}).items():
                        y.__dict__[k] = v
                    for k, v in (slots or {}).items():
                        setattr(y, k, v)
            if len(red) > 3 and red[3] is not None:
                for item in red[3]:
                    list.append(y, pickle_copy(item, memo))
            if len(red) > 4 and red[4] is not None:
                for k, v in red[4]:
                    y[pickle_copy(k, memo)] = pickle_copy(v, memo)
            return y
    return copy.deepcopy(x)


def _copy_callable(fn):
    """what pickling does to a callable: functions go by reference, the arguments bound in a partial are copied"""
    import functools
    if isinstance(fn, functools.partial):
        return functools.partial(_copy_callable(fn.func), *pickle_copy(fn.args), **pickle_copy(fn.keywords))
    return fn


class Future:
    def __init__(self, fn, args, kwargs):
        self._call = (fn, args, kwargs)
        self._done = False
        self._res = None
        self._exc = None

    def _run(self):
        if self._done:
            return
        fn, args, kwargs = self._call
        fn = _copy_callable(fn)
        args, kwargs = pickle_copy((args, kwargs))
        try:
            self._res = fn(*args, **kwargs)
        except Exception as e:      # delivered when result() is called, as a real future does
            self._exc = e
        self._done = True

    def result(self, timeout=None):
        self._run()
        if self._exc is not None:
            raise self._exc
        return self._res

    def done(self):
        return self._done


class ProcessPoolExecutor:
    def __init__(self, max_workers=None, **kw):
        if max_workers is not None and max_workers <= 0:
            raise ValueError("max_workers must be greater than 0")
        self.max_workers = max_workers
        self._futures = []
        CONFIG["log"].append(("pool", max_workers))

    def __enter__(self):
        return self

    def __exit__(self, *a):
        self.shutdown()
        return False

    def shutdown(self, wait=True, **kw):
        for i in _perm(len(self._futures)):
            self._futures[i]._run()

    def submit(self, fn, /, *args, **kwargs):
        f = Future(fn, args, kwargs)
        self._futures.append(f)
        return f

    def map(self, fn, *iterables, timeout=None, chunksize=1):
        futs = [self.submit(fn, *args) for args in zip(*iterables)]
        for i in _perm(len(futs)):      # tasks complete in the harness-chosen order ...
            futs[i]._run()

        def gen():                       # ... results are delivered in submission order
            for f in futs:
                yield f.result()
        return gen()


ThreadPoolExecutor = ProcessPoolExecutor


def as_completed(fs, timeout=None):
    fs = list(fs)
    for i in _perm(len(fs)):
        fs[i]._run()
        yield fs[i]


def wait(fs, timeout=None, return_when="ALL_COMPLETED"):
    fs = list(fs)
    for i in _perm(len(fs)):
        fs[i]._run()
    return set(fs), set()


module = types.ModuleType("concurrent.futures")
module.ProcessPoolExecutor = ProcessPoolExecutor
module.ThreadPoolExecutor = ThreadPoolExecutor
module.as_completed = as_completed
module.wait = wait
module.Future = Future
module.CONFIG = CONFIG
