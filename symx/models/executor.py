"""concurrent.futures as seen by the code under test: a process-pool *model*.

* every task runs on deep copies of the callable and of its arguments (what pickling across processes
  gives): mutations made by a task are invisible to the parent and to other tasks;
* tasks *execute* in a completion order chosen by the harness (CONFIG["order"], a permutation applied per
  batch of outstanding tasks), `Executor.map` nevertheless yields results in submission order and
  `as_completed` yields them in completion order - the only two facts the model captures.
Real scheduling, pickling failures and worker state are outside the model."""
import copy
import types

CONFIG = {"order": None, "log": []}


def _perm(n):
    o = CONFIG.get("order")
    if o is None:
        return list(range(n))
    p = [i for i in o if i < n]
    return p + [i for i in range(n) if i not in p]


def _copy_callable(fn):
    """what pickling does to a callable: functions go by reference, the arguments bound in a partial are copied"""
    import functools
    if isinstance(fn, functools.partial):
        return functools.partial(_copy_callable(fn.func), *copy.deepcopy(fn.args), **copy.deepcopy(fn.keywords))
    return fn


class Future:
    def __init__(self, fn, args, kwargs):
        self._call = (fn, args, kwargs)
        self._done = False
        self._res = None
        self._exc = None

    def _run(self):
        if self._done:
            return
        fn, args, kwargs = self._call
        fn = _copy_callable(fn)
        args, kwargs = copy.deepcopy((args, kwargs))
        try:
            self._res = fn(*args, **kwargs)
        except Exception as e:      # delivered when result() is called, as a real future does
            self._exc = e
        self._done = True

    def result(self, timeout=None):
        self._run()
        if self._exc is not None:
            raise self._exc
        return self._res

    def done(self):
        return self._done


class ProcessPoolExecutor:
    def __init__(self, max_workers=None, **kw):
        if max_workers is not None and max_workers <= 0:
            raise ValueError("max_workers must be greater than 0")
        self.max_workers = max_workers
        self._futures = []
        CONFIG["log"].append(("pool", max_workers))

    def __enter__(self):
        return self

    def __exit__(self, *a):
        self.shutdown()
        return False

    def shutdown(self, wait=True, **kw):
        for i in _perm(len(self._futures)):
            self._futures[i]._run()

    def submit(self, fn, /, *args, **kwargs):
        f = Future(fn, args, kwargs)
        self._futures.append(f)
        return f

    def map(self, fn, *iterables, timeout=None, chunksize=1):
        futs = [self.submit(fn, *args) for args in zip(*iterables)]
        for i in _perm(len(futs)):      # tasks complete in the harness-chosen order ...
            futs[i]._run()

        def gen():                       # ... results are delivered in submission order
            for f in futs:
                yield f.result()
        return gen()


ThreadPoolExecutor = ProcessPoolExecutor


def as_completed(fs, timeout=None):
    fs = list(fs)
    for i in _perm(len(fs)):
        fs[i]._run()
        yield fs[i]


def wait(fs, timeout=None, return_when="ALL_COMPLETED"):
    fs = list(fs)
    for i in _perm(len(fs)):
        fs[i]._run()
    return set(fs), set()


module = types.ModuleType("concurrent.futures")
module.ProcessPoolExecutor = ProcessPoolExecutor
module.ThreadPoolExecutor = ThreadPoolExecutor
module.as_completed = as_completed
module.wait = wait
module.Future = Future
module.CONFIG = CONFIG
