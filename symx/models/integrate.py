"""scipy.integrate.dblquad as its contract on the integrands that occur: the exact value of

        int_{x=a}^{b} int_{y=g(x)}^{h(x)} func(y, x) dy dx

for integrands of the form  sin(y) * P(Y_l^m(y, x) ...)  (P a polynomial in the real and imaginary parts of
the spherical harmonics of the integration variables, coefficients free of them) over the full sphere
a=0, b=2*pi, g=0, h=pi.  The integrand closure of the code under test is executed symbolically at fresh
integration variables, the resulting term is expanded into monomials of the harmonic symbols and every
monomial is integrated with an exact table (Legendre recurrences and Fourier orthogonality over the
rationals; value = q * sqrt(n) * pi^(1-d/2)).  Anything else -- other limits, other integrands -- is
reported as unsupported (never as held).  The numerical error estimate of QUADPACK is outside the model;
the table is compared with scipy's numerical quadrature in every float run of the harness that uses it."""
from __future__ import annotations

import math
from fractions import Fraction as F
from functools import lru_cache

import z3

from .. import core
from ..core import SR, toz

# --------------------------------------------------------------------------- exact table


def _padd(p, q):
    n = max(len(p), len(q))
    return [(p[i] if i < len(p) else 0) + (q[i] if i < len(q) else 0) for i in range(n)]


def _pmul(p, q):
    out = [F(0)] * (len(p) + len(q) - 1)
    for i, a in enumerate(p):
        if a:
            for j, b in enumerate(q):
                out[i + j] += a * b
    return out


def _pder(p):
    return [i * p[i] for i in range(1, len(p))] or [F(0)]


@lru_cache(None)
def legendre(l):
    """coefficients (ascending) of the Legendre polynomial P_l"""
    if l == 0:
        return (F(1),)
    if l == 1:
        return (F(0), F(1))
    a, b = legendre(l - 1), legendre(l - 2)
    t = _pmul([F(0), F(2 * l - 1, l)], list(a))
    return tuple(_padd(t, [-F(l - 1, l) * c for c in b]))


def _phi_c0(factors):
    """coefficient of e^{0} in the product of cos(m phi) ('re') / sin(m phi) ('im'); (re, im) Fractions"""
    cur = {0: (F(1), F(0))}
    for kind, _l, m in factors:
        if m == 0:
            if kind == "im":
                return F(0)
            continue
        # cos = 1/2 e^{im} + 1/2 e^{-im};  sin = -i/2 e^{im} + i/2 e^{-im}
        terms = [(m, (F(1, 2), F(0))), (-m, (F(1, 2), F(0)))] if kind == "re" else \
            [(m, (F(0), F(-1, 2))), (-m, (F(0), F(1, 2)))]
        nxt = {}
        for k, (a, b) in cur.items():
            for dk, (c, d) in terms:
                re, im = a * c - b * d, a * d + b * c
                p = nxt.get(k + dk, (F(0), F(0)))
                nxt[k + dk] = (p[0] + re, p[1] + im)
        cur = nxt
    re, im = cur.get(0, (F(0), F(0)))
    assert im == 0
    return re


def _squarefree(n):
    """n = k*k*s with s square free -> (k, s)"""
    k, s, p = 1, 1, 2
    while p * p <= n:
        e = 0
        while n % p == 0:
            n //= p
            e += 1
        k *= p ** (e // 2)
        s *= p ** (e % 2)
        p += 1
    return k, s * n


@lru_cache(None)
def sphere_integral(factors):
    """integral over the unit sphere of the product of Re/Im Y_l^m (scipy's sph_harm_y convention, m >= 0);
    factors: sorted tuple of (kind, l, m).  Returns (q, n, d): value = q * sqrt(n) * pi**(1 - d/2)"""
    d = len(factors)
    c0 = _phi_c0(factors)
    if c0 == 0:
        return F(0), 1, d
    M = sum(m for _k, _l, m in factors)
    assert M % 2 == 0
    poly = [F(1)]
    A = F(1)
    for _kind, l, m in factors:
        p = list(legendre(l))
        for _ in range(m):
            p = _pder(p)
        poly = _pmul(poly, [(-1) ** m * c for c in p])
        A *= F((2 * l + 1) * math.factorial(l - m), math.factorial(l + m))
    for _ in range(M // 2):
        poly = _pmul(poly, [F(1), F(0), F(-1)])
    X = sum((c * F(2, i + 1) for i, c in enumerate(poly) if i % 2 == 0), F(0))
    q = c0 * X * F(2) ** (1 - d)
    if q == 0:
        return F(0), 1, d
    k, s = _squarefree(A.numerator * A.denominator)
    return q * F(k, A.denominator), s, d


def table_float(factors):
    q, n, d = sphere_integral(tuple(sorted(factors)))
    return float(q) * math.sqrt(n) * math.pi ** (1 - d / 2)


def _sqrt_pi():
    c = core.ctx()
    s = z3.Real("sqrtPI")
    if not getattr(c, "_sqrtpi", False):
        c._sqrtpi = True
        from ..npshim import pi
        c.add(z3.And(s > 0, s * s == toz(pi())), kind="def", defines=["sqrtPI"])
        c.tv["sqrtPI"] = math.sqrt(math.pi)
    return SR(s)


def table_sr(factors):
    from ..npshim import pi
    q, n, d = sphere_integral(tuple(sorted(factors)))
    if q == 0:
        return SR(F(0))
    v = SR(q)
    if n != 1:
        v = v * SR(F(n)).sqrt()
    if d % 2 == 0:
        e = 1 - d // 2
        p = pi()
        for _ in range(abs(e)):
            v = v * p if e > 0 else v / p
    else:
        e = 2 - d
        s = _sqrt_pi()
        for _ in range(abs(e)):
            v = v * s if e > 0 else v / s
    return v


# --------------------------------------------------------------------------- polynomial view of a z3 term

class NotPolynomial(Exception):
    pass


def _pm_mul(a, b):
    out = {}
    for ma, ca in a.items():
        for mb, cb in b.items():
            d = dict(ma)
            for g, e in mb:
                d[g] = d.get(g, 0) + e
            key = tuple(sorted(d.items()))
            out[key] = out[key] + ca * cb if key in out else ca * cb
    return out


def _pm_add(a, b):
    out = dict(a)
    for m, c in b.items():
        out[m] = out[m] + c if m in out else c
    return out


def poly_in(e, gens, memo=None):
    """e as {monomial: coefficient term}; monomial = sorted tuple of (generator name, exponent)"""
    memo = {} if memo is None else memo
    k = e.get_id()
    if k in memo:
        return memo[k]
    if z3.is_const(e) and e.decl().kind() == z3.Z3_OP_UNINTERPRETED and e.decl().name() in gens:
        r = {((e.decl().name(), 1),): z3.RealVal(1)}
    elif not (core._vars_of(e) & gens.keys()):
        r = {(): e}
    else:
        kind = e.decl().kind()
        ch = e.children()
        if kind == z3.Z3_OP_ADD:
            r = {}
            for c in ch:
                r = _pm_add(r, poly_in(c, gens, memo))
        elif kind == z3.Z3_OP_SUB:
            r = poly_in(ch[0], gens, memo)
            for c in ch[1:]:
                r = _pm_add(r, {m: -v for m, v in poly_in(c, gens, memo).items()})
        elif kind == z3.Z3_OP_UMINUS:
            r = {m: -v for m, v in poly_in(ch[0], gens, memo).items()}
        elif kind == z3.Z3_OP_MUL:
            r = {(): z3.RealVal(1)}
            for c in ch:
                r = _pm_mul(r, poly_in(c, gens, memo))
        elif kind == z3.Z3_OP_DIV and not (core._vars_of(ch[1]) & gens.keys()):
            r = {m: v / ch[1] for m, v in poly_in(ch[0], gens, memo).items()}
        elif kind == z3.Z3_OP_POWER and z3.is_rational_value(ch[1]) and ch[1].denominator_as_long() == 1 \
                and 0 <= ch[1].numerator_as_long() <= 8:
            base = poly_in(ch[0], gens, memo)
            r = {(): z3.RealVal(1)}
            for _ in range(ch[1].numerator_as_long()):
                r = _pm_mul(r, base)
        else:
            raise NotPolynomial(f"operator {e.decl().name()} over the integration variables")
    memo[k] = r
    return r


# --------------------------------------------------------------------------- the model

def integrate_sphere(func, what="integrand"):
    """exact integral of func(y, x) over y in [0, pi], x in [0, 2 pi] for sin(y)*P(Y(y, x)); returns
    (SR value, info)"""
    c = core.ctx()
    from ..npshim import pi
    n = len(c.apps.setdefault("dblquad", []))
    y = core.var(f"quad_theta{n}", 0, None, True)
    x = core.var(f"quad_phi{n}", 0, None, True)
    c.inputs.pop(f"quad_theta{n}", None)       # integration variables are not inputs of the harness
    c.inputs.pop(f"quad_phi{n}", None)
    core.assume(core.And(y < pi(), x < 2 * pi()), "integration variables inside the open domain")
    val = func(y, x)
    if hasattr(val, "ndim"):
        val = val[()] if val.ndim == 0 else val.ravel()[0]
    val = val if isinstance(val, SR) else SR(core.conc(val))
    T = z3.simplify(toz(val))
    yz, xz = toz(y), toz(x)
    gens = {}
    for ax, s, co in c.apps.get("trig", []):
        if core._vars_of(ax) & {str(yz), str(xz)}:
            gens[s.decl().name()] = ("sin", ax.get_id() == yz.get_id())
            gens[co.decl().name()] = ("cos", False)
    for (l, m, t2, p2, re, im) in c.apps.get("sph_harm_y", []):
        if core._vars_of(t2) & {str(yz), str(xz)} or core._vars_of(p2) & {str(yz), str(xz)}:
            ok = t2.get_id() == yz.get_id() and (p2.get_id() == xz.get_id() or (z3.is_rational_value(p2) and m == 0))
            gens[re.decl().name()] = ("re", l, abs(m)) if ok and m >= 0 else ("bad",)
            gens[im.decl().name()] = ("im", l, abs(m)) if ok and m >= 0 else ("bad",)
    if core._vars_of(T) & {str(yz), str(xz)}:
        raise core.Abort("unsupported", f"{what}: depends on the integration variables other than through sin / Y_lm")
    try:
        P = poly_in(T, gens)
    except NotPolynomial as ex:
        raise core.Abort("unsupported", f"{what}: {ex}")
    total = SR(F(0))
    nmono = 0
    for mon, coef in P.items():
        factors, sin_exp = [], 0
        for g, e in mon:
            info = gens[g]
            if info[0] == "sin" and info[1]:
                sin_exp += e
            elif info[0] in ("re", "im"):
                factors += [info] * e
            else:
                raise core.Abort("unsupported", f"{what}: monomial with {info} of the integration variables")
        if sin_exp != 1:
            cz = z3.simplify(coef)
            if z3.is_rational_value(cz) and cz.numerator_as_long() == 0:
                continue
            raise core.Abort("unsupported", f"{what}: not of the form sin(theta) * P(Y_lm)")
        nmono += 1
        total = total + SR(z3.simplify(coef)) * table_sr(factors)
    info = dict(theta=y, phi=x, integrand=val, monomials=nmono, value=total)
    c.apps["dblquad"].append(info)
    return total, info


def dblquad(func, a, b, gfun, hfun, args=(), epsabs=1.49e-8, epsrel=1.49e-8):
    c = core.ctx()
    from ..npshim import pi, lift
    if c.mode == "exact":
        raise core.Abort("unsupported", "dblquad in exact mode")
    a, b = lift(a), lift(b)
    probe = core.var(f"quad_outer{len(c.apps.setdefault('dblquad', []))}", 0, None, False)
    c.inputs.pop(f"quad_outer{len(c.apps['dblquad'])}", None)
    g = lift(gfun(probe) if callable(gfun) else gfun)
    h = lift(hfun(probe) if callable(hfun) else hfun)
    dom = core.And(SR(a) == 0, SR(b) == 2 * pi(), SR(g) == 0, SR(h) == pi())
    verdict, _m, _how = c.decide(z3.Not(core.tob(dom)))
    if verdict != "unsat":
        raise core.Abort("unsupported", "dblquad over a domain other than theta in [0, pi], phi in [0, 2 pi]")
    if args:
        f2 = lambda y, x: func(y, x, *args)
    else:
        f2 = func
    val, info = integrate_sphere(f2, "dblquad integrand")
    info["limits"] = (a, b, g, h)
    return val, SR(F(0))
