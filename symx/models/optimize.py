"""scipy.optimize: least_squares contract stub (see DESIGN §3.5); minimize_scalar unmodelled"""
from .. import core

HOOK = {"least_squares": None}


def least_squares(fun, x0, bounds=(-float("inf"), float("inf")), **kw):
    h = HOOK["least_squares"]
    if h is None:
        raise core.Abort("unsupported", "least_squares (no contract installed by this harness)")
    return h(fun, x0, bounds=bounds, **kw)


def minimize_scalar(*a, **k):
    raise core.Abort("unsupported", "scipy.optimize.minimize_scalar is not modelled")
