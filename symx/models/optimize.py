"""scipy.optimize as seen by the code under test.

`least_squares` is a *contract stub* (DESIGN §3.5): it raises the ValueErrors scipy raises for an
infeasible start (`lb >= ub`, `x0` outside the bounds, non-finite residuals at `x0`), and otherwise
returns a fresh, arbitrary `x*` with `lb <= x* <= ub` and (optionally) `cost(x*) <= cost(x0)`, after
evaluating the residual closure symbolically at `x0` and at `x*`.  Nothing about *how* scipy finds
`x*` is modelled.  `minimize_scalar` is not modelled.
"""
from fractions import Fraction as F
import math
import types

import numpy as _np

from .. import core
from ..core import SR
from ..npshim import lift, objarr

CONFIG = {"cost": True, "calls": [], "enabled": True, "nudge": None}
HOOK = {"least_squares": None}


def _special(v):
    return isinstance(v, (float, _np.floating)) and (math.isinf(v) or math.isnan(v))


def _bcast(b, n):
    a = _np.asarray(b, dtype=object) if not isinstance(b, _np.ndarray) else b
    if a.ndim == 0:
        a = _np.full(n, a[()], dtype=object)
    return [a[i] if _special(a[i]) else lift(a[i]) for i in range(n)]


def least_squares(fun, x0, jac="2-point", bounds=(-float("inf"), float("inf")), method="trf", **kw):
    h = HOOK["least_squares"]
    if h is not None:
        return h(fun, x0, bounds=bounds, jac=jac, method=method, **kw)
    if not CONFIG["enabled"]:
        raise core.Abort("unsupported", "least_squares (contract disabled by this harness)")
    x0 = objarr(_np.atleast_1d(x0))
    if x0.ndim != 1:
        raise ValueError("`x0` must have at most 1 dimension.")
    n = len(x0)
    if len(bounds) != 2:
        raise ValueError("`bounds` must contain 2 elements.")
    lb, ub = _bcast(bounds[0], n), _bcast(bounds[1], n)
    if len(lb) != n or len(ub) != n:
        raise ValueError("Inconsistent shapes between bounds and `x0`.")
    # ---- scipy's input validation (each comparison may fork)
    for i in range(n):
        lo, hi, x = lb[i], ub[i], lift(x0[i])
        lo_inf = _special(lo) and lo < 0
        hi_inf = _special(hi) and hi > 0
        if _special(lo) and not lo_inf or _special(hi) and not hi_inf:
            raise ValueError("Each lower bound must be strictly less than each upper bound.")
        if not lo_inf and not hi_inf and not bool(lo < hi):
            raise ValueError("Each lower bound must be strictly less than each upper bound.")
        if _special(x):
            raise ValueError("`x0` is infeasible.")
        if (not lo_inf and not bool(lo <= x)) or (not hi_inf and not bool(x <= hi)):
            raise ValueError("Initial guess is outside of provided bounds")
    call = dict(x0=[lift(v) for v in x0], lb=lb, ub=ub, kwargs=dict(kw))
    CONFIG["calls"].append(call)
    f0 = _np.atleast_1d(fun(x0.copy()))
    for v in f0.reshape(-1):
        if _special(v):
            raise ValueError("Residuals are not finite in the initial point.")
    call["f0"] = f0
    # ---- the result: arbitrary point inside the bounds
    c = core.ctx()
    xs = _np.empty(n, dtype=object)
    for i in range(n):
        if c.mode == "exact":
            xs[i] = lift(x0[i])          # concrete validation runs: the optimiser "returns the start"
            continue
        v = core.var(f"lsq{len(CONFIG['calls'])}_x{i}")
        lo, hi = lb[i], ub[i]
        if not _special(lo):
            core.assume(v >= lo, "optimiser contract: result within the bounds")
        if not _special(hi):
            core.assume(v <= hi, "optimiser contract: result within the bounds")
        W = CONFIG.get("window")
        if W is not None and _special(lo) and _special(hi):
            core.assume(core.And(v >= lift(x0[i]) - W, v <= lift(x0[i]) + W),
                        f"cut: unbounded parameters of the optimiser result lie within {W} of the start")
        hint = CONFIG.get("hint")
        if hint is not None:
            hint(i, n, v, [lift(t) for t in x0])
        xs[i] = v
    f1 = _np.atleast_1d(fun(xs.copy()))
    call["x"] = xs
    call["f1"] = f1
    success = True
    if CONFIG.get("protocol") and c.mode != "exact":
        # evaluation protocol of an iterative solver: the residual closure may be evaluated at further points after
        # the returned iterate (a rejected trial step, a finite-difference probe), and the run may end unconverged
        xl = _np.empty(n, dtype=object)
        for i in range(n):
            v = core.var(f"lsq{len(CONFIG['calls'])}_last{i}")
            if not _special(lb[i]):
                core.assume(v >= lb[i], "optimiser contract: every evaluated point within the bounds")
            if not _special(ub[i]):
                core.assume(v <= ub[i], "optimiser contract: every evaluated point within the bounds")
            W = CONFIG.get("window")
            if W is not None and _special(lb[i]) and _special(ub[i]):
                core.assume(core.And(v >= lift(x0[i]) - W, v <= lift(x0[i]) + W),
                            f"cut: unbounded parameters of every evaluated point lie within {W} of the start")
            xl[i] = v
        call["x_last"] = xl
        fun(xl.copy())
        ok = core.var(f"lsq{len(CONFIG['calls'])}_converged", 0, 1)
        success = bool(ok >= F(1, 2))
        call["success"] = success
    if any(_special(v) for v in f1.reshape(-1)):
        raise core.Abort("infeasible", "optimiser contract: residual at the result is finite")
    c0 = sum((lift(v) * lift(v) for v in f0.reshape(-1)), SR(F(0)))
    c1 = sum((lift(v) * lift(v) for v in f1.reshape(-1)), SR(F(0)))
    if CONFIG["cost"] and c.mode != "exact":
        core.assume(c1 <= c0, "optimiser contract: cost at the result does not exceed the cost at the start")
    return types.SimpleNamespace(x=xs, cost=c1 / 2, fun=f1, success=success, status=1 if success else 0, nfev=2, njev=1, optimality=SR(F(0)),
                                 message="contract stub", active_mask=_np.zeros(n, dtype=int))


def minimize_scalar(*a, **k):
    raise core.Abort("unsupported", "scipy.optimize.minimize_scalar is not modelled")


def reset(cost=True, enabled=True, window=None, hint=None, protocol=False):
    CONFIG["protocol"] = protocol
    CONFIG["window"] = window
    CONFIG["hint"] = hint
    CONFIG["cost"] = cost
    CONFIG["enabled"] = enabled
    CONFIG["calls"] = []
