"""small py-pde helpers used by /repo/droplets (formulas copied from py-pde 0.58)"""
from __future__ import annotations

from fractions import Fraction as F

import numpy as _np

from .. import core
from ..core import SR
from ..npshim import symnp, objarr, lift, has_sym


def volume_from_radius(radius, dim):
    # pde.grids.spherical.volume_from_radius
    if dim == 1:
        return 2 * radius
    if dim == 2:
        return symnp.pi * radius ** 2
    if dim == 3:
        return SR(F(4, 3)) * symnp.pi * radius ** 3   # py-pde: 4 / 3 * np.pi * radius**3
    raise NotImplementedError(f"Cannot calculate the volume in {dim} dimensions")


def number_array(data, dtype=None, copy=None):
    # pde.tools.misc.number_array: np.array(data, dtype=..., copy=copy) with float default
    a = symnp.asarray(data)
    if a.dtype != object and a.dtype.kind in "biu":
        a = objarr(a.astype(float))
    return a


def display_progress(iterator, total=None, enabled=True, **kwargs):
    return iterator


def fill_in_docstring(f):
    return f


def plot_on_axes(*a, **k):
    def deco(f):
        return f
    if len(a) == 1 and callable(a[0]) and not k:
        return a[0]
    return deco


class PlotReference:
    def __init__(self, ax=None, element=None, parameters=None):
        self.ax, self.element, self.parameters = ax, element, parameters


def ident(f=None, **kw):
    if f is None:
        return lambda g: g
    return f


def overload(f, **kw):
    return lambda g: g
