"""pde.fields.ScalarField / FieldBase: grid + data holder with the operations the repo uses"""
from __future__ import annotations

from fractions import Fraction as F

import numpy as _np

from .. import core
from ..core import SR
from ..npshim import symnp, objarr, lift, has_sym


class FieldBase:
    pass


class ScalarField(FieldBase):
    def __init__(self, grid, data=None, *, label=None, dtype=None, with_ghost_cells=False):
        self.grid = grid
        self.label = label
        if data is None or (isinstance(data, str) and data == "zeros"):
            self.data = symnp.zeros(grid.shape)
        else:
            if isinstance(data, ScalarField):
                data = data.data
            if dtype in (bool, _np.bool_):
                a = _np.asarray(data)
                if a.dtype == object:
                    from ..npshim import astype
                    a = astype(a, bool)
                a = _np.broadcast_to(a.astype(bool), grid.shape).copy()
                self.data = a
            else:
                a = data if isinstance(data, _np.ndarray) else symnp.asarray(data)
                if a.dtype == bool:
                    self.data = _np.broadcast_to(a, grid.shape).copy()
                else:
                    if a.dtype != object:
                        a = objarr(a.astype(float))
                    if a.shape != tuple(grid.shape):
                        a = _np.broadcast_to(a, grid.shape)
                    self.data = a.copy()
        if tuple(self.data.shape) != tuple(grid.shape):
            raise ValueError("data shape does not match grid")

    def copy(self, label=None):
        return ScalarField(self.grid, self.data.copy(), label=label or self.label)

    def __iadd__(self, other):
        o = other.data if isinstance(other, ScalarField) else other
        self.data = self.data + o
        return self

    def __add__(self, other):
        o = other.data if isinstance(other, ScalarField) else other
        return ScalarField(self.grid, self.data + o)

    @property
    def integral(self):
        return (self.data * self.grid.cell_volumes).sum()

    @property
    def average(self):
        # pde: integral over space divided by the grid volume
        return self.integral / self.grid.volume

    @property
    def magnitude(self):
        return abs(lift(self.average))


def extract_field(fields, source=None, check_rank=None):
    # pde.visualization.plotting.extract_field
    if callable(source):
        return source(fields)
    if source is not None:
        return fields[source]
    return fields
