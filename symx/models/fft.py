from .. import core
def fftn(*a, **k):
    raise core.Abort("unsupported", "fftn model not installed")
def fftfreq(*a, **k):
    raise core.Abort("unsupported", "fftfreq model not installed")
