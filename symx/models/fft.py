"""numpy.fft as seen by the code under test: the discrete Fourier transform by its definition.

fftn(a, norm="ortho")[k] = prod(N)^(-1/2) * sum_n a[n] exp(-2 pi i sum_a k_a n_a / N_a), with exact roots of
unity for axis lengths N in {1, 2, 3, 4, 6} (values 0, +-1, +-1/2, +-sqrt(3)/2; sqrt(3) algebraic).  The
orthonormal factor is carried lazily: |.|^2 of an element is (re^2 + im^2) / prod(N) without any root.
fftfreq(n, d) is its formula."""
from fractions import Fraction as F
import itertools

import numpy as _np

from .. import core
from ..core import SR
from ..npshim import lift, objarr, has_sym
from .cplx import SC

_ROOTS = {  # N -> list of (cos, sin) of 2 pi k / N as (rational part, coefficient of sqrt(3))
    1: [((1, 0), (0, 0))],
    2: [((1, 0), (0, 0)), ((-1, 0), (0, 0))],
    4: [((1, 0), (0, 0)), ((0, 0), (1, 0)), ((-1, 0), (0, 0)), ((0, 0), (-1, 0))],
    3: [((1, 0), (0, 0)), ((F(-1, 2), 0), (0, F(1, 2))), ((F(-1, 2), 0), (0, F(-1, 2)))],
    6: [((1, 0), (0, 0)), ((F(1, 2), 0), (0, F(1, 2))), ((F(-1, 2), 0), (0, F(1, 2))), ((-1, 0), (0, 0)),
        ((F(-1, 2), 0), (0, F(-1, 2))), ((F(1, 2), 0), (0, F(-1, 2)))],
}


class OrthoSC(SC):
    """complex value times a lazily kept positive factor sqrt(scale2)"""
    __slots__ = ("scale2",)

    def __init__(self, re, im, scale2):
        SC.__init__(self, re, im)
        self.scale2 = scale2

    def abs2(self):
        return (self.re * self.re + self.im * self.im) * self.scale2

    def abs(self):
        return lift(self.abs2()).sqrt()

    __abs__ = abs

    def _mat(self):
        s = SR(self.scale2).sqrt()
        return SC(self.re * s, self.im * s)

    @property
    def real(self):
        return self._mat().re

    @property
    def imag(self):
        return self._mat().im


def _val(pair, r3):
    a, b = pair
    v = SR(F(a))
    if b:
        v = v + F(b) * r3
    return v


def fftn(a, s=None, axes=None, norm=None):
    arr = a if isinstance(a, _np.ndarray) else _np.asarray(a)
    if arr.dtype != object and not has_sym(arr):
        return _np.fft.fftn(arr, s=s, axes=axes, norm=norm)
    if s is not None or axes is not None:
        raise core.Abort("unsupported", "fftn with s/axes")
    shape = arr.shape
    for n in shape:
        if n not in _ROOTS:
            raise core.Abort("out_of_bound", f"DFT model only for axis lengths 1,2,3,4,6 (got {n})")
    r3 = SR(F(3)).sqrt() if any(n in (3, 6) for n in shape) else None
    tabs = [[(_val(c, r3), _val(s_, r3)) for c, s_ in _ROOTS[n]] for n in shape]
    total = 1
    for n in shape:
        total *= n
    if norm == "ortho":
        scale2 = F(1, total)
    elif norm in (None, "backward"):
        scale2 = F(1)
    elif norm == "forward":
        scale2 = F(1, total * total)
    else:
        raise ValueError(f"Invalid norm value {norm}")
    out = _np.empty(shape, dtype=object)
    idxs = list(itertools.product(*[range(n) for n in shape]))
    for k in idxs:
        re, im = SR(F(0)), SR(F(0))
        for nidx in idxs:
            # exp(-i phi) with phi = sum 2 pi k_a n_a / N_a : multiply the unit roots axis by axis
            c, s_ = SR(F(1)), SR(F(0))
            for ax, n in enumerate(shape):
                ca, sa = tabs[ax][(k[ax] * nidx[ax]) % n]
                c, s_ = c * ca - s_ * sa, s_ * ca + c * sa
            v = lift(arr[nidx])
            re = re + v * c
            im = im - v * s_
        out[k] = OrthoSC(re, im, scale2)
    return out


def fftfreq(n, d=1.0):
    d = lift(d)
    res = _np.empty(n, dtype=object)
    for i in range(n):
        k = i if i < (n + 1) // 2 else i - n
        res[i] = F(k) / (n * d)
    return res
