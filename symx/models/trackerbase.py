"""pde.trackers.base: minimal TrackerBase"""
import logging
import types


class TrackerBase:
    def __init__(self, interrupts=1, **k):
        self.interrupts = interrupts
        self._logger = logging.getLogger(self.__class__.__name__)
        self.finalized = None

    def initialize(self, state, info=None):
        return 0.0

    def finalize(self, info=None):
        self.finalized = info if info is not None else True


module = types.ModuleType("pde.trackers.base")
module.TrackerBase = TrackerBase
module.InfoDict = dict
module.InterruptData = object
