"""complex number as a pair of SR"""
from fractions import Fraction as F
import numpy as _np
from ..core import SR
from ..npshim import lift


class SC:
    __slots__ = ("re", "im")
    __array_priority__ = 1001

    def __init__(self, re, im=None):
        self.re = lift(re)
        self.im = lift(im) if im is not None else SR(F(0))

    @property
    def real(self):
        return self.re

    @property
    def imag(self):
        return self.im

    def _co(self, o):
        if isinstance(o, SC):
            return o
        if isinstance(o, complex):
            return SC(o.real, o.imag)
        if isinstance(o, _np.ndarray):
            return None
        return SC(o)

    def __add__(self, o):
        o = self._co(o)
        if o is None:
            return NotImplemented
        return SC(self.re + o.re, self.im + o.im)

    __radd__ = __add__

    def __sub__(self, o):
        o = self._co(o)
        if o is None:
            return NotImplemented
        return SC(self.re - o.re, self.im - o.im)

    def __rsub__(self, o):
        o = self._co(o)
        return SC(o.re - self.re, o.im - self.im)

    def __mul__(self, o):
        o = self._co(o)
        if o is None:
            return NotImplemented
        return SC(self.re * o.re - self.im * o.im, self.re * o.im + self.im * o.re)

    __rmul__ = __mul__

    def __neg__(self):
        return SC(-self.re, -self.im)

    def __truediv__(self, o):
        if isinstance(o, SC):
            d = o.re * o.re + o.im * o.im
            n = self * o.conjugate()
            return SC(n.re / d, n.im / d)
        o = lift(o)
        return SC(self.re / o, self.im / o)

    def conjugate(self):
        return SC(self.re, -self.im)

    def abs2(self):
        return self.re * self.re + self.im * self.im

    def abs(self):
        return self.abs2().sqrt()

    def __abs__(self):
        return self.abs()

    def __repr__(self):
        return f"SC({self.re!r}, {self.im!r})"
