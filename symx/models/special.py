"""scipy.special.sph_harm_y: fresh complex symbol per (l, m, theta-term, phi-term)"""
from fractions import Fraction as F
import numpy as _np
import z3
from .. import core
from ..core import SR, toz
from ..npshim import lift
from .cplx import SC


def _one(n, m, theta, phi):
    c = core.ctx()
    theta, phi = lift(theta), lift(phi)
    if c.mode == "exact":
        from scipy.special import sph_harm_y as real
        v = complex(real(int(n), int(m), float(theta), float(phi)))
        return SC(SR(F(v.real)), SR(F(v.imag)))
    tz, pz = toz(theta), toz(phi)
    apps = c.apps.setdefault("sph_harm_y", [])
    for (n2, m2, t2, p2, re, im) in apps:
        if n2 == n and m2 == m and t2.get_id() == tz.get_id() and p2.get_id() == pz.get_id():
            return SC(SR(re), SR(im))
    re, im = c.fresh(f"Yre_{n}_{m}"), c.fresh(f"Yim_{n}_{m}")
    for (n2, m2, t2, p2, re2, im2) in apps:
        if n2 == n and m2 == m:
            c.add(z3.Implies(z3.And(t2 == tz, p2 == pz), z3.And(re2 == re, im2 == im)), kind="def",
                  defines=[re.decl().name(), im.decl().name(), re2.decl().name(), im2.decl().name()])
    if m == 0:
        c.add(im == 0, kind="def", defines=[im.decl().name()])
    apps.append((n, m, tz, pz, re, im))
    return SC(SR(re), SR(im))


def sph_harm_y(n, m, theta, phi):
    if isinstance(theta, _np.ndarray) or isinstance(phi, _np.ndarray):
        theta_b, phi_b = _np.broadcast_arrays(_np.asarray(theta, dtype=object), _np.asarray(phi, dtype=object))
        out = _np.empty(theta_b.shape, dtype=object)
        for idx in _np.ndindex(*theta_b.shape):
            out[idx] = _one(n, m, theta_b[idx], phi_b[idx])
        return out
    return _one(n, m, theta, phi)
