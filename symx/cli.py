import argparse
import os
import sys

sys.path.insert(0, os.path.dirname(os.path.dirname(os.path.abspath(__file__))))


def main():
    ap = argparse.ArgumentParser()
    ap.add_argument("prop", nargs="?")
    ap.add_argument("--tier", default="quick")
    ap.add_argument("--only", default=None)
    ap.add_argument("--replay", default=None)
    ap.add_argument("--jobs", type=int, default=None)
    a = ap.parse_args()
    from harness import registry
    from symx import runner
    if a.replay:
        sys.exit(runner.replay_file(a.replay, registry.registry()))
    tier = os.environ.get("VERIF_TIER") or a.tier
    seed = int(os.environ.get("VERIF_SEED", "0") or 0)
    only = a.only.split(",") if a.only else None
    code = runner.run_property(a.prop, registry.harnesses(a.prop), tier, seed, only=only, jobs=a.jobs)
    sys.exit(code)


if __name__ == "__main__":
    main()
