"""One harness body, three executions.

A harness body is written once against an `Env`:
  * SymEnv   - the repo source loaded by symx.loader, symbolic inputs, obligations go to z3;
  * ExactEnv - the same loaded code, inputs are concrete Fractions (model validation);
  * RealEnv  - the *installed* package (real numpy/scipy/py-pde/h5py), inputs are floats taken
               from a solver witness (replay) or from a seeded sample (model validation).
Oracles are written with the helpers of the Env so that they mean the same in all three.
"""
from __future__ import annotations

import importlib
import math
import os
import sys
from fractions import Fraction as F

import numpy as _np

from . import core
from .core import SR, SB


class Violation(Exception):
    pass


class BaseEnv:
    mode = "?"

    def __init__(self):
        self.failed: list[dict] = []
        self.tags: set[str] = set()
        self.observed: dict = {}
        self.checked = 0

    # ---- generic helpers available to oracles
    def tag(self, name, cond=True):
        if isinstance(cond, (bool, _np.bool_)) and cond:
            self.tags.add(name)

    def sq(self, x):
        return x * x


# =========================================================================== symbolic / exact

class SymEnv(BaseEnv):
    mode = "sym"

    def __init__(self, loaded):
        super().__init__()
        self.L = loaded
        self.np = __import__("symx.npshim", fromlist=["symnp"]).symnp
        self.F = F

    # modules of the code under test
    def mod(self, name):
        return self.L.load("droplets" + ("." + name if name else ""))

    @property
    def D(self):
        return self.mod("droplets")

    @property
    def E(self):
        return self.mod("emulsions")

    @property
    def IA(self):
        return self.mod("image_analysis")

    @property
    def T(self):
        return self.mod("droplet_tracks")

    @property
    def TR(self):
        return self.mod("trackers")

    @property
    def SPH(self):
        return self.mod("tools.spherical")

    # inputs
    def real(self, name, lo=None, hi=None, strict_lo=False, strict_hi=False, sample=None):
        return core.var(name, lo, hi, strict_lo, strict_hi)

    def const(self, x):
        return SR(x if isinstance(x, F) else F(x))

    @property
    def pi(self):
        return self.np.pi

    @property
    def nan(self):
        return math.nan

    # grids / fields
    def cartesian(self, bounds, shape, periodic=False):
        from .models import grids
        return grids.CartesianGrid(bounds, shape, periodic)

    def polar(self, radius, shape):
        from .models import grids
        return grids.PolarSymGrid(radius, shape)

    def spherical(self, radius, shape):
        from .models import grids
        return grids.SphericalSymGrid(radius, shape)

    def cylindrical(self, radius, bounds_z, shape, periodic_z=False):
        from .models import grids
        return grids.CylindricalSymGrid(radius, bounds_z, shape, periodic_z)

    def field(self, grid, data=None, dtype=None):
        from .models import fields
        return fields.ScalarField(grid, data, dtype=dtype)

    def array(self, xs):
        from .npshim import objarr
        return objarr(xs)

    def num(self, x):
        """value of a code result as an oracle number"""
        from .npshim import lift
        if isinstance(x, _np.ndarray) and x.ndim == 0:
            x = x[()]
        return lift(x)

    # logic
    And = staticmethod(core.And)
    Or = staticmethod(core.Or)
    Not = staticmethod(core.Not)
    Implies = staticmethod(core.Implies)
    Iff = staticmethod(core.Iff)
    ite = staticmethod(core.ite)
    min = staticmethod(core.smin)
    max = staticmethod(core.smax)

    def abs(self, x):
        return abs(x if isinstance(x, SR) else SR(x))

    def sqrt(self, x):
        return (x if isinstance(x, SR) else SR(x)).sqrt()

    def cbrt(self, x):
        return (x if isinstance(x, SR) else SR(x)).cbrt()

    def lift(self, x):
        return x if isinstance(x, SR) else SR(x)

    def mat(self, x):
        """the value as a plain term (a lazy root is materialised: y >= 0, y*y = q)"""
        x = self.num(x)
        return SR(x.v) if isinstance(x, SR) else x

    def finite(self, x):
        """value is a finite number (symbolic reals always are; inf/nan tokens are floats)"""
        if isinstance(x, _np.ndarray) and x.ndim == 0:
            x = x[()]
        if isinstance(x, SR):
            return True
        c = core.conc(x)
        return c is not None and not core.is_special(c)

    def sin(self, x):
        return self.lift(x).sin()

    def cos(self, x):
        return self.lift(x).cos()

    def tanh(self, x):
        return self.lift(x).tanh()

    def arctan2(self, y, x):
        return core.arctan2(y, x)

    def arccos(self, x):
        return self.lift(x).arccos()

    def is_true(self, cond):
        """fork on an oracle condition (use sparingly)"""
        return bool(cond)

    def eq(self, a, b):
        """equality as a condition (tolerant in the float/exact replays)"""
        return self.num(a) == self.num(b)

    def le(self, a, b):
        """a <= b as a condition (tolerant in the float/exact replays)"""
        return self.num(a) <= self.num(b)

    def concrete(self, x):
        return isinstance(x, (bool, _np.bool_)) or (isinstance(x, SR) and x.is_conc)

    # obligations
    def assume(self, cond, text=None):
        core.assume(cond, text)

    crash_only = False      # C09 mode: only exceptions, definedness and finiteness are decided

    def _skip(self, name):
        return self.crash_only and "finite" not in name

    def prove(self, name, cond, margin=None):
        if self._skip(name):
            return True
        self.checked += 1
        return core.prove(name, cond, margin=margin)

    def prove_eq(self, name, a, b):
        if self._skip(name):
            return True
        self.checked += 1
        return core.prove_eq(name, self.num(a), self.num(b))

    def prove_le(self, name, a, b):
        if self._skip(name):
            return True
        self.checked += 1
        return core.prove_le(name, self.num(a), self.num(b))

    def prove_lt(self, name, a, b):
        if self._skip(name):
            return True
        self.checked += 1
        a, b = self.num(a), self.num(b)
        return core.prove(name, a < b, margin=lambda d: a - b >= d)

    def cover(self, name, cond=True):
        core.cover(name, cond)

    def observe(self, name, value):
        core.observe(name, value)

    def expect_raises(self, name, exc_types, fn):
        """documented error: `fn` must raise one of exc_types"""
        try:
            fn()
        except exc_types:
            self.prove(name, True)
            return True
        self.prove(name, False)
        return False

    def same_object(self, a, b):
        return a is b


class ExactEnv(SymEnv):
    mode = "exact"

    def __init__(self, loaded, witness):
        super().__init__(loaded)
        self.witness = witness

    def assume(self, cond, text=None):
        if not bool(cond):
            raise core.ReplayReject(text or "assumption")

    def eq(self, a, b):
        a, b = float(self.num(a)), float(self.num(b))
        return abs(a - b) <= 1e-9 * (1 + abs(a) + abs(b))

    def le(self, a, b):
        a, b = float(self.num(a)), float(self.num(b))
        return a <= b + 1e-9 * (1 + abs(a) + abs(b))

    def _rec(self, name, ok):
        if self.crash_only and "finite" not in name:
            return True
        self.checked += 1
        if not ok:
            self.failed.append(dict(name=name))
        return ok

    def prove(self, name, cond, margin=None):
        return self._rec(name, bool(cond))

    def prove_eq(self, name, a, b):
        a, b = self.num(a), self.num(b)
        return self._rec(name, abs(float(a) - float(b)) <= 1e-9 * (1 + abs(float(a)) + abs(float(b))))

    def prove_le(self, name, a, b):
        a, b = self.num(a), self.num(b)
        return self._rec(name, float(a) <= float(b) + 1e-9 * (1 + abs(float(a)) + abs(float(b))))

    def prove_lt(self, name, a, b):
        return self.prove_le(name, a, b)

    def cover(self, name, cond=True):
        pass

    def observe(self, name, value):
        self.observed[name] = _tofloat(value)


def _tofloat(v):
    if isinstance(v, (list, tuple)):
        return [_tofloat(x) for x in v]
    if isinstance(v, _np.ndarray):
        return [_tofloat(x) for x in v.tolist()]
    if isinstance(v, SR):
        return float(v.v) if v.is_conc else None
    if isinstance(v, (bool, _np.bool_, str)) or v is None:
        return v
    if isinstance(v, (int, _np.integer)):
        return int(v)
    try:
        return float(v)
    except Exception:
        return repr(v)


# =========================================================================== real package, floats

_REAL = {}


def real_modules():
    if not _REAL:
        root = os.environ.get("VERIF_REPO", "/repo")
        if root not in sys.path:
            sys.path.insert(0, root)
        import warnings
        warnings.filterwarnings("ignore")
        import logging
        logging.disable(logging.WARNING)
        for k, n in [("", "droplets"), ("droplets", "droplets.droplets"), ("emulsions", "droplets.emulsions"),
                     ("image_analysis", "droplets.image_analysis"), ("droplet_tracks", "droplets.droplet_tracks"),
                     ("trackers", "droplets.trackers"), ("tools.spherical", "droplets.tools.spherical"),
                     ("tools.misc", "droplets.tools.misc")]:
            _REAL[k] = importlib.import_module(n)
        f = _REAL[""].__file__
        if not os.path.realpath(f).startswith(os.path.realpath(root)):
            raise RuntimeError(f"real package imported from {f}, expected under {root}")
    return _REAL


class RealEnv(BaseEnv):
    mode = "float"
    TOL = 1e-7

    def __init__(self, witness, tol=None):
        super().__init__()
        self.witness = witness
        self.np = _np
        self.F = F
        if tol is not None:
            self.TOL = tol
        self._mods = real_modules()

    def mod(self, name):
        return self._mods[name]

    D = property(lambda s: s._mods["droplets"])
    E = property(lambda s: s._mods["emulsions"])
    IA = property(lambda s: s._mods["image_analysis"])
    T = property(lambda s: s._mods["droplet_tracks"])
    TR = property(lambda s: s._mods["trackers"])
    SPH = property(lambda s: s._mods["tools.spherical"])

    def real(self, name, lo=None, hi=None, strict_lo=False, strict_hi=False, sample=None):
        v = float(self.witness[name])
        eps = 0.0
        if lo is not None and (v < float(lo) or (strict_lo and v <= float(lo))):
            raise core.ReplayReject(f"{name} below its bound")
        if hi is not None and (v > float(hi) or (strict_hi and v >= float(hi))):
            raise core.ReplayReject(f"{name} above its bound")
        return v

    def const(self, x):
        return float(x)

    pi = math.pi
    nan = math.nan

    def cartesian(self, bounds, shape, periodic=False):
        import pde
        return pde.CartesianGrid([[float(a), float(b)] for a, b in bounds], shape, periodic)

    def polar(self, radius, shape):
        import pde
        return pde.PolarSymGrid(float(radius), shape)

    def spherical(self, radius, shape):
        import pde
        return pde.SphericalSymGrid(float(radius), shape)

    def cylindrical(self, radius, bounds_z, shape, periodic_z=False):
        import pde
        return pde.CylindricalSymGrid(float(radius), [float(b) for b in bounds_z], shape, periodic_z=periodic_z)

    def field(self, grid, data=None, dtype=None):
        import pde
        if data is not None:
            data = _np.asarray(data, dtype=dtype if dtype is not None else float)
        return pde.ScalarField(grid, data, dtype=dtype)

    def array(self, xs):
        return _np.array(xs, dtype=float)

    def num(self, x):
        if isinstance(x, _np.ndarray) and x.ndim == 0:
            x = x[()]
        return float(x)

    @staticmethod
    def And(*xs):
        return all(bool(x) for x in xs)

    @staticmethod
    def Or(*xs):
        return any(bool(x) for x in xs)

    @staticmethod
    def Not(x):
        return not bool(x)

    @staticmethod
    def Implies(a, b):
        return (not bool(a)) or bool(b)

    @staticmethod
    def Iff(a, b):
        return bool(a) == bool(b)

    @staticmethod
    def ite(c, a, b):
        return a if c else b

    @staticmethod
    def min(*xs):
        return min(xs)

    @staticmethod
    def max(*xs):
        return max(xs)

    def abs(self, x):
        return abs(x)

    def sqrt(self, x):
        return math.sqrt(x) if x >= 0 else math.nan

    def cbrt(self, x):
        return float(x) ** (1 / 3) if x >= 0 else math.nan

    def lift(self, x):
        return float(x)

    def mat(self, x):
        return self.num(x)

    def finite(self, x):
        try:
            return bool(math.isfinite(float(x)))
        except (TypeError, ValueError):
            return False

    def sin(self, x):
        return math.sin(x)

    def cos(self, x):
        return math.cos(x)

    def tanh(self, x):
        return math.tanh(x)

    def arctan2(self, y, x):
        return math.atan2(y, x)

    def arccos(self, x):
        return math.acos(max(-1.0, min(1.0, x)))

    def is_true(self, cond):
        return bool(cond)

    def eq(self, a, b):
        a, b = self.num(a), self.num(b)
        return abs(a - b) <= self._scale(a, b)

    def le(self, a, b):
        a, b = self.num(a), self.num(b)
        return a <= b + self._scale(a, b)

    def concrete(self, x):
        return True

    def assume(self, cond, text=None):
        if not bool(cond):
            raise core.ReplayReject(text or "assumption")

    crash_only = False

    def _rec(self, name, ok, detail=None):
        if self.crash_only and "finite" not in name:
            return True
        self.checked += 1
        if not ok:
            self.failed.append(dict(name=name, detail=detail))
        return ok

    def prove(self, name, cond, margin=None):
        return self._rec(name, bool(cond))

    def _scale(self, a, b):
        return self.TOL * (1 + abs(a) + abs(b))

    def prove_eq(self, name, a, b):
        a, b = self.num(a), self.num(b)
        ok = (abs(a - b) <= self._scale(a, b)) if (math.isfinite(a) and math.isfinite(b)) else False
        return self._rec(name, ok, f"{a!r} != {b!r}")

    def prove_le(self, name, a, b):
        a, b = self.num(a), self.num(b)
        ok = (a <= b + self._scale(a, b)) if (math.isfinite(a) and math.isfinite(b)) else False
        return self._rec(name, ok, f"{a!r} > {b!r}")

    def prove_lt(self, name, a, b):
        a, b = self.num(a), self.num(b)
        ok = (a < b + self._scale(a, b)) if (math.isfinite(a) and math.isfinite(b)) else False
        return self._rec(name, ok, f"{a!r} >= {b!r}")

    def cover(self, name, cond=True):
        pass

    def observe(self, name, value):
        self.observed[name] = _tofloat(value)

    def expect_raises(self, name, exc_types, fn):
        try:
            fn()
        except exc_types:
            return self._rec(name, True)
        return self._rec(name, False, "did not raise")

    def same_object(self, a, b):
        return a is b
