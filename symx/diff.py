"""symbolic differentiation of z3 real terms built from + - * / and integer powers (everything the
engine produces for polynomial / rational code); abstraction symbols count as constants"""
import z3


def diff(e, x):
    """d e / d x  for a z3 Real constant x"""
    if z3.is_rational_value(e) or z3.is_int_value(e) or z3.is_algebraic_value(e):
        return z3.RealVal(0)
    if z3.is_const(e):
        return z3.RealVal(1) if e.eq(x) else z3.RealVal(0)
    k = e.decl().kind()
    ch = e.children()
    if k == z3.Z3_OP_ADD:
        return z3.Sum([diff(c, x) for c in ch])
    if k == z3.Z3_OP_SUB:
        d = diff(ch[0], x)
        for c in ch[1:]:
            d = d - diff(c, x)
        return d
    if k == z3.Z3_OP_UMINUS:
        return -diff(ch[0], x)
    if k == z3.Z3_OP_MUL:
        terms = []
        for i, c in enumerate(ch):
            dc = diff(c, x)
            if z3.is_rational_value(dc) and dc.numerator_as_long() == 0:
                continue
            rest = [ch[j] for j in range(len(ch)) if j != i]
            terms.append(z3.Product([dc] + rest) if rest else dc)
        return z3.Sum(terms) if terms else z3.RealVal(0)
    if k == z3.Z3_OP_DIV:
        a, b = ch
        return (diff(a, x) * b - a * diff(b, x)) / (b * b)
    if k == z3.Z3_OP_POWER:
        a, n = ch
        if z3.is_rational_value(n) or z3.is_int_value(n):
            return n * (a ** (n - 1)) * diff(a, x)
        raise ValueError("power with symbolic exponent")
    if k == z3.Z3_OP_TO_REAL:
        return z3.RealVal(0)
    if k == z3.Z3_OP_ITE:
        return z3.If(ch[0], diff(ch[1], x), diff(ch[2], x))
    raise ValueError(f"cannot differentiate {e.decl()}")


def at_zero(e, xs):
    return z3.simplify(z3.substitute(e, *[(x, z3.RealVal(0)) for x in xs]))
