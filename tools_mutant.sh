#!/bin/sh
# usage: tools_mutant.sh <name> <prop> '<sed expr>' <file relative to repo> [extra vcheck args]
# copies /repo to a scratch dir, applies the sed expression, runs the quick check against the copy
# (VERIF_REPO), with evidence/replays redirected to the scratch dir; removes the copy afterwards
N=$1; PROP=$2; EXPR=$3; FILE=$4; shift 4
D=$(mktemp -d /tmp/mut.XXXXXX)
mkdir -p $D/repo && cp -r /repo/droplets $D/repo/ && cp /repo/pyproject.toml $D/repo/ 2>/dev/null
sed -i "$EXPR" $D/repo/$FILE
if diff -q /repo/$FILE $D/repo/$FILE >/dev/null; then echo "MUTANT $N: sed did not change anything"; rm -rf $D; exit 3; fi
( cd /verif && VERIF_REPO=$D/repo VERIF_OUT=$D ./vcheck $PROP "$@" 2>&1 | grep -E "VIOLATION|KNOWN|tier=" | cut -c1-260 | head -4 | sed "s/^/MUTANT $N: /" )
rm -rf $D
