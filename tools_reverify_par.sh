#!/bin/sh
# usage: tools_reverify_par.sh [jobs]     re-verifies every stored seed against /repo HEAD, properties in parallel.
# Runs the checks from a snapshot of the committed /verif (git worktree under mktemp, removed afterwards), each
# property in its own scratch worktree of /repo (removed afterwards); writes seeded/RESULTS.md.
J=${1:-4}
TOP=$(mktemp -d /tmp/reverify.XXXXXX)
git -C /verif worktree add --detach $TOP/verif HEAD -q || exit 9
ln -s /verif/.venv $TOP/verif/.venv
cat > $TOP/one.sh <<'EOS'
#!/bin/sh
TOP=$1; P=$2
WT=$TOP/wt_$P
git -C /repo worktree add --detach $WT HEAD -q || exit 9
cp /repo/droplets/_version.py $WT/droplets/ 2>/dev/null
for S in /verif/seeded/$P-*; do
  ID=$(basename $S)
  EXTRA=""
  [ "$ID" = "C02-2" ] && EXTRA="C10"
  [ "$ID" = "C17-1" ] && EXTRA="C16"
  [ "$ID" = "C17-4" ] && EXTRA="C16"
  [ "$ID" = "C17-5" ] && EXTRA="C16"
  [ "$ID" = "C20-6" ] && EXTRA="C10"
  git -C $WT checkout -q -- .
  ( cd $WT && PYTHONPATH=$WT /venv/bin/python $S/demo.py >/dev/null 2>&1 ); DC=$?
  if git -C $WT apply $S/patch.diff 2>/dev/null; then AP=yes; else AP=NO; fi
  ( cd $WT && PYTHONPATH=$WT /venv/bin/python $S/demo.py >/dev/null 2>&1 ); DP=$?
  TS=$( cd $WT && PYTHONPATH=$WT /venv/bin/python -m pytest -q -p no:cacheprovider --timeout=900 2>&1 | tail -1 | grep -o "[0-9]* passed\|[0-9]* failed" | tr '\n' ' ' )
  RES=""
  for C in $P $EXTRA; do
    O=$(mktemp -d $TOP/out.XXXXXX)
    ( cd $TOP/verif && VERIF_REPO=$WT VERIF_OUT=$O ./vcheck $C --tier quick > $O/log 2>&1 ); RC=$?
    NV=$(grep -c "^VIOLATION" $O/log)
    H=$(grep -A1 "^VIOLATION" $O/log | grep -o "harness=[A-Za-z0-9]*" | sort -u | tr '\n' ' ')
    NU=$(grep -c "^HARNESS-ERROR: unconfirmed" $O/log)
    RES="$RES $C: exit $RC, $NV VIOLATION line(s) $H"
    [ "$RC" = "2" ] && RES="$RES($NU unconfirmed candidate(s))"
    RES="$RES;"
    rm -rf $O
  done
  echo "| $ID | $AP | $DC / $DP | $TS | $RES |" > $TOP/row_$ID
done
git -C $WT checkout -q -- .
git -C /repo worktree remove --force $WT
EOS
chmod +x $TOP/one.sh
ls -d /verif/seeded/C*-* | sed 's#.*/##; s#-.*##' | sort -u | xargs -P$J -I{} $TOP/one.sh $TOP {}
OUT=/verif/seeded/RESULTS.md
{
echo "# Seeded changes re-verified against /repo $(git -C /repo rev-parse --short HEAD) with /verif $(git -C /verif rev-parse --short HEAD) on $(date -u +%F)"
echo ""
echo "Seeds <id>-1/-2: first round of independent sub-agents; <id>-3/-4: second round. Every row: patch applies to a scratch worktree, demo exits 0 clean / non-zero patched, full suite with the patch, then the quick check(s) with VERIF_REPO=<patched worktree>. Exit 1 = VIOLATION reported; exit 2 = the check flags the change (refuted obligation or code not encodable) but could not confirm a violation on the real package; exit 0 = not detected."
echo ""
echo "| seed | patch applies | demo clean / patched | suite with patch | checks run -> outcome |"
echo "|---|---|---|---|---|"
cat $TOP/row_* 
} > $OUT
git -C /verif worktree remove --force $TOP/verif
rm -rf $TOP
git -C /verif worktree prune; git -C /repo worktree prune
echo "written $OUT"
