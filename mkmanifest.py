#!/usr/bin/env python3
"""regenerates MANIFEST.json from the table below (kept in one place so it is always valid)"""
import json

NOTE_COMMON = ("Trusted base of a 'held' verdict: CPython executing the repo source, the SYMX value classes, "
               "shims and models (validated against the real libraries on seeded samples in every run), the "
               "harness oracles, z3. Exact real arithmetic: floating-point rounding is outside the claim. "
               "Numba compilation trusted (decorators = identity). A 'violation' verdict trusts none of these: "
               "it is a concrete input that fails on the installed package.")

CLAIMED = {
    "C01": ("bounded symbolic execution of get_phase_field / Emulsion.get_phasefield + locate_droplets (unrefined) on "
            "concrete grids (Cartesian 1D 4-9 cells, 2D 3x3/4x3/4x4, every periodicity mask, anisotropic offset "
            "spacing; polar/spherical 3-6 cells; cylindrical 3x4/3x5) with droplet centres and radii symbolic; z3 "
            "decides: one droplet per original, volume = covered cells (own min-image oracle), centre within half a "
            "cell, position inside the box", "§4 C01"),
    "C02": ("bounded symbolic execution of locate_droplets_in_mask on every binary image (bits symbolic, forked) of "
            "Cartesian grids 1D <=6 cells / 2D 3x3 (thorough: every doubly periodic 4x4 image) with every periodicity mask and symbolic spacing/origin (2D: "
            "anisotropic spacing times a symbolic scale), cylindrical 2x3/3x3 and 3x4 with periodic z; independent torus flood-fill oracle; "
            "z3 decides one-to-one correspondence to components (volume, unwrapped centre of mass modulo the "
            "period), non-overlap of results, and the left-out rule", "§4 C02"),
    "C03": ("bounded symbolic execution of polar_coordinates and of get_phase_field / Emulsion.get_phasefield for "
            "all five droplet classes on concrete grids (Cartesian 1D-3D incl. periodic axes, polar, spherical, "
            "cylindrical) with centre, radius, width, levels, amplitudes symbolic; tanh / trig / harmonics as "
            "axiomatised symbols; z3 decides geometry = own min-image metric and spherical-angle relations, "
            "range, midpoint <=> inside, indicator, monotonicity, translation = roll, emulsion = clip(sum)", "§4 C03"),
    "C04": ("bounded symbolic execution of refine_droplet on fields of symbolic values (Cartesian 1D/2D, polar, "
            "spherical, cylindrical with periodic z; every compatible class; levels given / automatic; adjust_values) "
            "with scipy least_squares as a contract stub (scipy's ValueErrors for infeasible starts; otherwise any "
            "point within the bounds): z3 decides that the start handed to the optimiser is feasible (no exception), "
            "class, parameter ranges, symmetry-fixed coordinates, wrapping into the box, image untouched, and that the "
            "returned droplet carries exactly the optimiser's result - also for unconverged runs and when the residual "
            "closure is evaluated again after the returned iterate - and that the loss handed to the optimiser is the "
            "squared deviation. 'Never worsens the fit' is then the contract's own clause (float replays measure the "
            "squared deviation on the real package). For an image rendered from the candidate itself the residual handed "
            "to the optimiser at the start is exactly zero in every fitted cell (the candidate is a global minimiser); "
            "convergence / 'unchanged up to solver tolerance' are observed on the real package in float replays only", "§4 C04"),
    "C06": ("bounded symbolic execution of DropletTrackList.from_emulsion_time_course on time courses of <=3 frames x "
            "<=2 droplets (thorough: 3 droplets / 4 frames), 1D/2D, with and without periodic grid, both methods; "
            "positions, radii, times and cut-off symbolic; partition, copy-independence, consecutive-frame and "
            "input-preservation obligations; exceptions on any feasible path are violations", "§4 C06"),
    "C07": ("same scenario as C06; overlap / cut-off / greedy-matching / small-motion identity obligations against an "
            "independent min-image oracle, decided by z3 for all positions, radii and cut-offs", "§4 C07"),
    "C08": ("bounded symbolic execution of to_file / from_file of Emulsion, EmulsionTimeCourse, DropletTrack, "
            "DropletTrackList against an in-memory HDF5 store model: 13 droplet layouts (5 classes x dims x mode "
            "counts), 0-3 members/frames/tracks incl. empty ones and a 12-frame course, unset widths, all numbers "
            "symbolic; obligations: equality by the classes' own __eq__ and term-by-term (same class, layout, "
            "parameters, times, order); inconsistent members must raise or round-trip", "§4 C08"),
    "C09": ("bounded symbolic execution, in crash-only mode (exceptions escaping public entry points on any feasible "
            "path, operations outside their domain, non-finite results), of the rendering, locating, refining "
            "(optimiser contract), class-selection, thresholding and tracking scenarios of C01-C04, C06, C18, C19 "
            "plus locate_droplets / DropletTracker through the real locator on fields of symbolic values with every "
            "threshold rule and option combination; documented ValueError / TypeError requests checked", "§4 C09"),
    "C10": ("bounded symbolic execution of remove_overlapping / get_pairwise_distances / overlaps / "
            "get_neighbor_distances / from_random on n<=3 droplets (plus 4 at concrete positions; thorough 4 free), dims 1-3, with and without periodic "
            "grids; positions, radii, minimal distance and rng draws symbolic; independent min-image oracle", "§4 C10"),
    "C11": ("bounded symbolic execution of merge (in-place, out-of-place, direct kernel call, 2 and 3 operands, "
            "unset widths) in dims 1-3 with symbolic positions/radii/widths; z3 decides volume, centre of mass, width, "
            "order independence, path agreement and operand preservation", "§4 C11"),
    "C12": ("bounded symbolic execution of all conversion variants and droplet properties in dims 1-3; z3 decides "
            "round trips, variant agreement, derivative sandwich for all r>=0, V>=0, h>0", "§4 C12"),
    "C13": ("partial: bounded symbolic execution of interface_distance / interface_position / interface_curvature / "
            "volume (2D) / volume_approx / surface_area (zero amplitudes) of the three perturbed classes at symbolic "
            "angles, radius, centre and amplitudes, harmonics and trig as symbols; first-order agreement decided by "
            "symbolic differentiation of the executed term at zero amplitudes (value and every coefficient, all modes "
            "present); exact 3D volume = integral of r^3 sin(theta)/3 over the sphere for 1-6 (thorough 8) symbolic "
            "amplitudes with dblquad modelled as the exact integral (table of exact harmonic integrals); mode-index "
            "round trips l<=40; real-harmonic definition. Not decided: QUADPACK's numerical error, 2D perimeter "
            "quadrature for non-zero amplitudes, stored sphere triangulations", "§4 C13"),
    "C14": ("bounded symbolic execution of DropletTracker.handle/finalize vs EmulsionTimeCourse.from_storage over <=3 "
            "frames with locate_droplets as an uninterpreted function of all its arguments, symbolic times / "
            "threshold / minimal radius, option sets enumerated; file round trip through the store model; "
            "LengthScaleTracker with an analysis stub that raises any of 7 exception types on a symbolic subset "
            "of frames", "§4 C14"),
    "C15": ("bounded symbolic execution of EmulsionTimeCourse.from_storage and refine_droplets / locate_droplets("
            "refine=True) against a process-pool model (tasks on pickled copies following the objects' pickle protocol, numpy records restored detached; every completion order of 3-4 tasks, "
            "num_processes in {1,2,3,'auto'}) with locate_droplets / least_squares as uninterpreted functions of "
            "all their arguments; float replays use the real ProcessPoolExecutor", "§4 C15"),
    "C16": ("bounded symbolic execution of get_structure_factor on periodic Cartesian grids with axis lengths in "
            "{1,2,3,4,6} (1D 2-6, 2D up to 4x2 / 4x3, 3D 2x2x2 thorough) with symbolic field values and scale; FFT = "
            "DFT definition with exact roots of unity, smoother = its definition with exp abstracted; z3 decides per "
            "mode non-negativity, Parseval, scaling / translation / reflection / axis-permutation invariance, wave "
            "numbers = Fourier wave numbers, stretch scaling, requested wave numbers returned, (0,1) prepended", "§4 C16"),
    "C17": ("partial: bounded symbolic execution of get_length_scale: moment method with the structure factor as "
            "symbolic (k, S) arrays (value = 2 pi sum S / sum k S, stretch covariance, scale invariance; wave numbers "
            "themselves decided by C16); droplet-counting method through the real locate_droplets on symbolic fields "
            "(1D 4 cells, 2D 3x3 periodic, symbolic stretch): d-th root of volume per droplet, stretch covariance, "
            "translation invariance, scale invariance for the automatic threshold rules. Not decided: the peak-based "
            "method (scipy minimize_scalar, float underflow) and the plane-wave accuracy clause", "§4 C17"),
    "C18": ("bounded symbolic execution of locate_droplets threshold dispatch / binarisation / size filters and of "
            "threshold_otsu on symbolic field values (Cartesian 1D 4 cells, 2D 2x2, polar 3; Otsu on 4-5 values with "
            "2-4 bins, histogram by its definition); z3 decides binary image = field > documented threshold, Otsu = "
            "first maximiser of the between-class variance, invariance under positive affine maps, filter = radius > "
            "minimal radius before and after (contract-stubbed) refinement", "§4 C18"),
    "C19": ("bounded symbolic execution of locate_droplets (class selection, from_droplet, refine_droplet promotion, "
            "Emulsion dtype bookkeeping) over 7 grid families x modes 0-3 x width {unset, 0, symbolic} x refine, plus "
            "refinement of candidates of any size up to covering every cell; "
            "binary-image locator replaced by symbolic candidates, least_squares by a contract stub; z3/rewriter "
            "decide class table, amplitude count, carried width/radius/position, common layout", "§4 C19"),
    "C20": ("bounded symbolic execution of Emulsion / EmulsionTimeCourse / DropletTrack / DropletTrackList under "
            "every sequence of 2-3 operations (12 / 8 / 4 operations; third operation a solver-chosen index) and every "
            "ordered pair of 13 droplet layouts inserted with force_consistency=True through four routes, with "
            "all droplet parameters, times and thresholds symbolic; after every step content = list model, "
            "aliasing probe on caller-held droplets, sources of copies/slices unchanged, summary queries = "
            "definitions and order independence; decided by z3 / the rewriter", "§4 C20"),
}

NOT_YET = {}

NA = {
    "C05": "accuracy of convergence of an iterative floating-point optimiser (scipy least_squares); no bounded "
           "encoding within reach and a contract stub removes the claim (DESIGN §4 C05)",
}


def main():
    props = [json.loads(l)["id"] for l in open("properties.jsonl")]
    checks = []
    for pid in props:
        if pid in CLAIMED:
            text, ref = CLAIMED[pid]
            checks.append(dict(
                property_id=pid,
                quick_cmd=f"./vcheck {pid} --tier quick",
                thorough_cmd=f"./vcheck {pid} --tier thorough",
                evidence_file=f"/verif/evidence/{pid}.json",
                replay_cmd_template="./vcheck --replay {path}",
                engine="symx",
                level_claimed=dict(category="other", text=text, design_ref=ref),
                level_note=NOTE_COMMON,
                technique="solver-based: symbolic execution of the repo's Python source on z3 reals, "
                          "per-path SMT obligations, float replay of counterexamples",
            ))
    na = []
    for pid in props:
        if pid in CLAIMED:
            continue
        reason = NA.get(pid) or NOT_YET.get(pid) or "check not built yet (work in progress; see DESIGN.md §7 build order)"
        na.append(dict(property_id=pid, reason=reason))
    m = dict(
        version=1,
        setup_cmd="./setup.sh",
        hooks=dict(guard="PY_DROPLETS_VERIF", enable="no source hooks: the loader executes the unmodified source; "
                   "checks export PY_DROPLETS_VERIF=1 for uniformity",
                   baseline_off_cmd="cd /repo && /venv/bin/python -m pytest -ra -q -p no:cacheprovider --timeout=900 "
                                    "--continue-on-collection-errors",
                   source_commits=[], add_only=True),
        engines=[dict(name="symx", path="/verif/symx", serves_properties=sorted(CLAIMED),
                      kind_free_text="symbolic re-execution of the repository's Python source with z3 (QF_NRA) "
                                     "deciding per-path obligations; float replay on the installed package")],
        checks=checks,
        not_applicable=na,
        notes="exit codes: 0 held on everything explored, 1 confirmed violation (VIOLATION line), 2 harness "
              "error / unconfirmed candidate / inconclusive validation",
    )
    json.dump(m, open("MANIFEST.json", "w"), indent=1)
    print("claimed", sorted(CLAIMED), "na", len(na))


if __name__ == "__main__":
    main()
