#!/bin/sh
# builds the overlay interpreter (z3 on top of /venv's packages) from the offline wheelhouse
set -e
cd "$(dirname "$0")"
if [ ! -x .venv/bin/python ] || ! .venv/bin/python -c "import z3, numpy, scipy, pde, h5py" 2>/dev/null; then
  rm -rf .venv
  /venv/bin/python -m venv .venv
  echo "import site; site.addsitedir('/venv/lib/python3.12/site-packages')" > .venv/lib/python3.12/site-packages/_venv_overlay.pth
  PIP_NO_INDEX=1 .venv/bin/pip install -q --no-index --find-links /opt/veriftools/wheels z3-solver cvc5 >/dev/null
fi
.venv/bin/python -c "import z3; print('z3', z3.get_version_string())"
