#!/bin/sh
# usage: tools_seedeval.sh <prop> <k> [other props...]   evaluates /tmp/seed_<prop>/change<k> in /tmp/seed_<prop>/wt
P=$1; K=$2; shift 2
S=/tmp/seed_$P/change$K; WT=/tmp/seed_$P/wt
mkdir -p /tmp/seedres
{ echo "## $P-$K"; sh /verif/tools_seedcheck.sh $S $WT $P "$@"; } > /tmp/seedres/$P-$K.log 2>&1
