#!/bin/sh
# usage: tools_seedcheck.sh <seed dir with patch.diff + demo.py> <worktree> [props...]
# verifies a seeded change (tests pass with it, demo fails with it and passes without), then runs the
# quick checks of the given properties against the patched worktree (VERIF_REPO), output redirected
S=$1; WT=$2; shift 2
git -C $WT checkout -q -- . || exit 9
( cd $WT && PYTHONPATH=$WT /venv/bin/python $S/demo.py >/dev/null 2>&1 ); echo "demo clean: exit $?"
git -C $WT apply $S/patch.diff || { echo "patch does not apply"; exit 9; }
( cd $WT && PYTHONPATH=$WT /venv/bin/python $S/demo.py >/dev/null 2>&1 ); echo "demo patched: exit $?"
( cd $WT && PYTHONPATH=$WT /venv/bin/python -m pytest -q -p no:cacheprovider --timeout=900 2>&1 | tail -1 )
for P in "$@"; do
  O=$(mktemp -d /tmp/seedout.XXXXXX)
  ( cd /verif && VERIF_REPO=$WT VERIF_OUT=$O ./vcheck $P --tier quick > $O/log 2>&1 )
  grep -E "^VIOLATION|^KNOWN|tier=|^HARNESS" $O/log | cut -c1-300 | head -4 | sed "s/^/[$P] /"
  grep -A1 "^VIOLATION" $O/log | grep "harness=" | head -2 | cut -c1-400
  rm -rf $O
done
git -C $WT checkout -q -- .
