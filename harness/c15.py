"""C15 - results do not depend on the number of worker processes or on scheduling"""
from fractions import Fraction as F
import inspect
import itertools
import zlib

from symx.runner import Harness
from harness import gridfam
from harness.c19 import patched
from harness.c08 import same_droplet, same_number
from harness.c14 import Storage
from harness.uf import UF, normalise, _same

GRID = dict(kind="cart", shape=[8], per="n", sp="iso", org="0")


# ---- module-level (hence picklable) stand-ins used in the float replays with the real process pool

def stub_locate_float(phase_field, threshold=0.5, *, minimal_radius=0, modes=0, interface_width=None, refine=False,
                      refine_args=None, num_processes=1):
    """deterministic function of the field content and of every option (real-package replays)"""
    import numpy as np
    from droplets.droplets import SphericalDroplet
    from droplets.emulsions import Emulsion
    sig = repr((np.asarray(phase_field.data).round(9).tolist(), threshold, minimal_radius, modes, interface_width, refine,
                sorted((refine_args or {}).items())))
    h = zlib.crc32(sig.encode())
    n = 1 + h % 2
    return Emulsion([SphericalDroplet([1.0 + ((h >> (3 * j)) % 997) / 997.0], 1.0 + ((h >> (5 * j + 1)) % 991) / 991.0)
                     for j in range(n)])


class LocateUF:
    """symbolic side: locate_droplets as an uninterpreted function of the field content and all options"""

    def __init__(self, env, orig, frames):
        self.env, self.frames = env, frames
        self.sig = inspect.signature(orig)
        self.uf = UF(env, "loc")
        self.calls = []

    def __call__(self, *a, **k):
        env = self.env
        b = self.sig.bind(*a, **k)
        b.apply_defaults()
        args = dict(b.arguments)
        field = args.pop("phase_field")
        fid = next((i for i, f in enumerate(self.frames) if f.data.shape == field.data.shape and all(
            same_number(env, x, y) for x, y in zip(f.data.flat, field.data.flat))), -1)
        args.pop("num_processes", None)
        sig = (fid, normalise(args))
        self.calls.append(sig)
        n = 1 + (fid % 2)
        return env.E.Emulsion([env.D.SphericalDroplet([self.uf((sig, j, "x"))], self.uf((sig, j, "r"))) for j in range(n)])


def set_order(env, order):
    if env.mode != "float":
        from symx.models import executor
        executor.CONFIG["order"] = order
        executor.CONFIG["log"] = []


def same_emulsions(env, a, b):
    return len(a) == len(b) and all(same_droplet(env, x, y) for x, y in zip(a, b))


class C15Storage(Harness):
    name = "C15Storage"
    prop = "C15"
    bounds = ("EmulsionTimeCourse.from_storage over 3 (thorough 4) stored frames: num_processes in {1, 2, 3, 'auto'} x every "
              "completion order of the tasks; stored times symbolic in any order (duplicates allowed); options symbolic")
    stubs = ["ProcessPoolExecutor model: tasks run on deep copies in a harness-chosen completion order, map yields in "
             "submission order, as_completed in completion order", "locate_droplets = uninterpreted function of field "
             "content and all options (float replay: deterministic hash with the real process pool)"]
    cost = 2
    exact_validation = False

    def configs(self, tier):
        nf = 3
        perms = list(itertools.permutations(range(nf)))
        out = [dict(nf=nf, order=list(p), refine=r) for p in perms for r in (False, True)]
        if tier == "thorough":
            out += [dict(nf=4, order=list(p), refine=False) for p in itertools.permutations(range(4))]
        return out

    def sample(self, cfg, rng):
        w = dict(thr=F(rng.randint(100, 900), 1000), mr=F(rng.randint(0, 2000), 1000))
        for f in range(cfg["nf"]):
            w[f"t{f}"] = F(rng.randint(-3, 3))
        return w

    def body(self, env, cfg):
        grid, sp = gridfam.make(env, GRID)
        nf = cfg["nf"]
        thr = env.real("thr", 0, 1)
        mr = env.real("mr", 0, 3)
        times = [env.real(f"t{f}", -5, 5) for f in range(nf)]
        frames = [env.field(grid, env.array([F(f + 1, 4)] * 3 + [0, 1, 0, F(f, 7), 1])) for f in range(nf)]
        kw = dict(threshold=thr, minimal_radius=mr, modes=0, refine_args={"tolerance": F(1, 1000) if env.mode != "float" else 1e-3})
        stub = LocateUF(env, env.IA.locate_droplets, frames) if env.mode != "float" else stub_locate_float
        results = {}
        with patched(env.IA, "locate_droplets", stub):
            for npz in (1, 2, 3, "auto"):
                set_order(env, cfg["order"])
                results[npz] = env.E.EmulsionTimeCourse.from_storage(Storage(frames, times), num_processes=npz,
                                                                     refine=cfg["refine"], **kw)
            set_order(env, None)
            again = env.E.EmulsionTimeCourse.from_storage(Storage(frames, times), num_processes=1, refine=cfg["refine"], **kw)
        ref = results[1]
        env.prove("serial analysis: one frame per stored field, stored times in stored order", len(ref) == nf and all(
            same_number(env, a, b) for a, b in zip(ref.times, times)))
        for npz in (2, 3, "auto"):
            r = results[npz]
            env.prove(f"num_processes={npz}: same number of frames as the serial run", len(r) == len(ref))
            if len(r) != len(ref):
                continue
            env.prove(f"num_processes={npz}: same times in the same order",
                      all(same_number(env, a, b) for a, b in zip(r.times, ref.times)))
            env.prove(f"num_processes={npz}: same droplets with identical parameters in the same order",
                      all(same_emulsions(env, a, b) for a, b in zip(r.emulsions, ref.emulsions)))
        env.prove("repeating the serial analysis returns the identical result", len(again) == len(ref) and all(
            same_emulsions(env, a, b) for a, b in zip(again.emulsions, ref.emulsions)))
        env.cover("stored times not increasing", env.Or(*[times[i] >= times[i + 1] for i in range(nf - 1)]))
        env.observe("n", len(ref))


def lsq_uf_hook(env, uf, log):
    """least_squares as an uninterpreted function of (x0, bounds, every keyword argument)"""
    import numpy as np
    import types

    def hook(fun, x0, bounds=(-float("inf"), float("inf")), **kw):
        from symx.npshim import objarr, lift
        x0 = objarr(np.atleast_1d(x0))
        n = len(x0)
        lb = [v for v in np.broadcast_to(np.asarray(bounds[0], dtype=object), (n,))]
        ub = [v for v in np.broadcast_to(np.asarray(bounds[1], dtype=object), (n,))]
        sig = (tuple(lift(v) for v in x0), tuple(repr(v) if isinstance(v, float) else lift(v) for v in lb),
               tuple(repr(v) if isinstance(v, float) else lift(v) for v in ub), normalise(kw))
        log.append(sig)
        xs = np.empty(n, dtype=object)
        for i in range(n):
            xs[i] = lift(x0[i]) + uf((sig, i)) * F(1, 100)
        return types.SimpleNamespace(x=xs, cost=0, fun=None, success=True, status=1)

    return hook


class C15Refine(Harness):
    name = "C15Refine"
    prop = "C15"
    bounds = ("refine_droplets / locate_droplets(refine=True) over 3 concrete candidates (different radii; interface width set / unset) on a 1D field: "
              "num_processes in {1, 2, 'auto'} x every completion order; refine options incl. a caller-supplied "
              "least_squares_params dict, tolerance; repeated calls with the same option objects")
    stubs = ["ProcessPoolExecutor model (pickled copies per task following the objects' pickle protocol, numpy records restored "
             "detached; completion order chosen by the harness)",
             "least_squares = uninterpreted function of start, bounds and every keyword argument (float replay: the real "
             "optimiser and the real process pool)"]
    cost = 3
    exact_validation = False

    OPTS = [
        dict(),
        dict(tolerance="tol"),
        dict(least_squares_params={"method": "trf"}),
        dict(least_squares_params={}, tolerance="tol"),
        dict(vmin=None, vmax=None),
    ]

    def configs(self, tier):
        perms = list(itertools.permutations(range(3)))
        out = [dict(opt=o, order=list(p)) for o in range(len(self.OPTS)) for p in (perms if tier == "thorough" else perms[::2])]
        # candidates whose interface width is unset (refinement sets it on the copy the worker received)
        out += [dict(opt=o, order=list(p), cand="unset") for o in (0, 4) for p in (perms if tier == "thorough" else perms[:2])]
        return out

    def sample(self, cfg, rng):
        return dict(dummy=F(0))

    def install(self, env, cfg):
        if env.mode != "float":
            from symx.models import optimize
            optimize.HOOK["least_squares"] = None

    def body(self, env, cfg):
        import math
        env.real("dummy", 0, 0)
        grid = env.cartesian([(0, 24)], [24], [False])
        prof = []
        for i in range(24):
            x = i + 0.5
            v = sum(0.5 + 0.5 * math.tanh((r - abs(x - c)) / 1.0) for c, r in ((4.0, 1.5), (11.0, 2.5), (19.0, 2.0)))
            prof.append(F(round(min(v, 1.0) * 10 ** 9), 10 ** 9))
        field = env.field(grid, env.array(prof))
        wd = None if cfg.get("cand") == "unset" else 1
        cands = lambda: [env.D.DiffuseDroplet([F(17, 4)], F(3, 2), wd), env.D.DiffuseDroplet([F(43, 4)], F(5, 2), wd),
                         env.D.DiffuseDroplet([F(77, 4)], 2, wd)]
        import copy

        def fresh_opts():
            o = copy.deepcopy(self.OPTS[cfg["opt"]])
            if o.get("tolerance") == "tol":
                o["tolerance"] = 1e-6
            return o

        opts = fresh_opts()
        log = []
        if env.mode != "float":
            from symx.models import optimize
            optimize.HOOK["least_squares"] = lsq_uf_hook(env, UF(env, "lsq", -1, 1), log)
        try:
            res = {}
            for npz in (1, 2, "auto"):
                set_order(env, cfg["order"])
                res[npz] = env.IA.refine_droplets(field, cands(), num_processes=npz, **fresh_opts())
            set_order(env, None)
            first = env.IA.refine_droplets(field, cands(), num_processes=1, **opts)
            again = env.IA.refine_droplets(field, cands(), num_processes=1, **opts)     # the same option objects
            via_locate = {npz: env.IA.locate_droplets(field, refine=True, refine_args=fresh_opts(), num_processes=npz)
                          for npz in (1, 2)}
        finally:
            if env.mode != "float":
                optimize.HOOK["least_squares"] = None
        ref = res[1]
        env.prove("serial refinement returns one droplet per candidate", len(ref) == 3)
        for npz in (2, "auto"):
            env.prove(f"num_processes={npz}: same droplets, bit-identical parameters, same order as the serial run",
                      len(res[npz]) == len(ref) and all(same_droplet(env, a, b) for a, b in zip(res[npz], ref)))
        env.prove("repeating the refinement with the same option objects returns the identical result",
                  len(again) == len(first) == len(ref) and all(same_droplet(env, a, b) for a, b in zip(again, first))
                  and all(same_droplet(env, a, b) for a, b in zip(first, ref)))
        env.prove("locate_droplets(refine=True): num_processes=2 equals the serial result",
                  same_emulsions(env, via_locate[1], via_locate[2]))
        env.observe("n", len(ref))


HARNESSES = [C15Storage, C15Refine]
