"""C17 - length scales are physical lengths (moment-based and droplet-counting methods; the peak-based method is
not decidable with the tools at hand, see DESIGN)"""
from fractions import Fraction as F
import itertools

from symx.runner import Harness
from harness.c19 import patched
from harness.uf import UF


class C17Mean(Harness):
    name = "C17Mean"
    prop = "C17"
    bounds = ("get_length_scale(method='structure_factor_mean') with get_structure_factor replaced by symbolic arrays of 3-4 "
              "(k, S) pairs: value = 2 pi sum S / sum k S; stretching the wave numbers by 1/lambda (lambda symbolic > 0) "
              "stretches the length by lambda, scaling S by a positive factor leaves it unchanged; full_output; the wave "
              "numbers themselves are C16's subject")
    stubs = ["get_structure_factor = symbolic (k, S) arrays (its own behaviour is decided by C16)"]
    cost = 1
    check_defined = False
    exact_validation = False

    def configs(self, tier):
        return [dict(n=n, alias=a) for n in (3, 4) for a in ("structure_factor_mean", "structure_factor_average")]

    def sample(self, cfg, rng):
        w = dict(lam=F(rng.randint(200, 5000), 1000), c=F(rng.randint(200, 5000), 1000))
        for j in range(cfg["n"]):
            w[f"k{j}"] = F(rng.randint(100, 5000), 1000)
            w[f"s{j}"] = F(rng.randint(1, 1000), 1000)
        return w

    def body(self, env, cfg):
        n = cfg["n"]
        ks = [env.real(f"k{j}", F(1, 100), 10) for j in range(n)]
        ss = [env.real(f"s{j}", 0, 1) for j in range(n)]
        env.assume(sum(ss, env.const(0)) > 0, "structure factor not identically zero")
        lam = env.real("lam", F(1, 10), 10)
        c = env.real("c", F(1, 10), 10)
        calls = []

        def fake_sf(k_arr, s_arr):
            def f(field, *a, **kw):
                calls.append((a, kw))
                return env.array(k_arr), env.array(s_arr)
            return f

        field = env.field(env.cartesian([(0, 4)], [4], True), env.array([0, 1, 0, 1]))
        with patched(env.IA, "get_structure_factor", fake_sf(ks, ss)):
            L = env.num(env.IA.get_length_scale(field, method=cfg["alias"]))
            Lf, sf_out = env.IA.get_length_scale(field, method=cfg["alias"], full_output=True)
        with patched(env.IA, "get_structure_factor", fake_sf([k / lam for k in ks], ss)):
            L2 = env.num(env.IA.get_length_scale(field, method=cfg["alias"]))
        with patched(env.IA, "get_structure_factor", fake_sf(ks, [c * s for s in ss])):
            L3 = env.num(env.IA.get_length_scale(field, method=cfg["alias"]))
        S0 = sum(ss, env.const(0))
        S1 = sum((k * s for k, s in zip(ks, ss)), env.const(0))
        env.prove("structure factor requested with default arguments", all(a == () and kw == {} for a, kw in calls))
        env.prove_eq("length = 2 pi / (first moment of the structure factor)", L * S1, 2 * env.pi * S0)
        env.prove_eq("full_output returns the same length", Lf, L)
        env.prove("full_output returns the structure factor", len(sf_out) == n and all(bool(env.eq(a, b)) for a, b in zip(sf_out, ss)))
        env.prove_eq("stretching the grid (wave numbers / lambda) stretches the length by lambda", L2, lam * L)
        env.prove_eq("multiplying the structure factor by a constant leaves the length unchanged", L3, L)
        env.expect_raises("unknown method raises ValueError", (ValueError,),
                          lambda: env.IA.get_length_scale(field, method="no_such_method"))
        env.observe("L", L)


class C17Count(Harness):
    name = "C17Count"
    prop = "C17"
    bounds = ("get_length_scale(method='droplet_detection') through the real locate_droplets on fields of symbolic values: "
              "Cartesian 1D 4 cells (periodic / not), 2D 3x3 doubly periodic (image bits forked), grid stretched by a symbolic "
              "factor; value = (box volume / number of droplets)^(1/d); invariance under translation along periodic axes "
              "and under positive scaling of the field for the automatic threshold rules")
    stubs = ["py-pde grid / field model", "scipy.ndimage label (real)"]
    cost = 4
    mod_mode = "fork"
    check_defined = False
    exact_validation = False

    def configs(self, tier):
        out = [dict(shape=[4], per="n", rule=r) for r in ("extrema", "mean")]
        out += [dict(shape=[4], per="p", rule=r) for r in ("extrema", "mean", 0.5)]
        for fix in itertools.product((0, 1), repeat=3):
            out.append(dict(shape=[3, 3], per="pp", rule=0.5, fix=list(fix)))
        return out

    def sample(self, cfg, rng):
        w = dict(lam=F(rng.randint(300, 3000), 1000), c=F(rng.randint(200, 5000), 1000))
        for idx in itertools.product(*[range(n) for n in cfg["shape"]]):
            w["v" + "_".join(map(str, idx))] = F(rng.choice([rng.randint(0, 400), rng.randint(600, 1000)]), 1000)
        return w

    def body(self, env, cfg):
        shape = tuple(cfg["shape"])
        dim = len(shape)
        periodic = [ch == "p" for ch in cfg["per"]]
        lam = env.real("lam", F(1, 4), 4)
        c = env.real("c", F(1, 10), 10)
        sp = [F(3, 4), F(5, 4)]
        grid = env.cartesian([(0, n * sp[a] * lam) for a, n in enumerate(shape)], list(shape), periodic)
        cells = list(itertools.product(*[range(n) for n in shape]))
        data = env.np.empty(shape, dtype=object if env.mode != "float" else float)
        fix = cfg.get("fix", [])
        for k, idx in enumerate(cells):
            if k < len(fix):
                data[idx] = F(9, 10) if fix[k] else F(1, 10)
                if env.mode == "float":
                    data[idx] = float(data[idx])
            else:
                data[idx] = env.real("v" + "_".join(map(str, idx)), 0, 1)
        rule = cfg["rule"]
        kw = dict(threshold=rule)

        def count(d):
            return len(env.IA.locate_droplets(env.field(grid, d), **kw))

        n0 = count(data)
        if n0 == 0:
            env.cover("no droplet (length undefined)")
            return
        L = env.num(env.IA.get_length_scale(env.field(grid, data), method="droplet_detection", **kw))
        vol = 1
        for a, n in enumerate(shape):
            vol = vol * (n * sp[a] * lam)
        per_drop = vol / n0
        if dim == 1:
            env.prove_eq("length = box length per detected droplet", L, per_drop)
        else:
            env.prove(f"length = {dim}-th root of the box volume per detected droplet", env.And(L >= 0, env.eq(L * L, per_drop)))
        # the same field on the unstretched grid: length / lambda
        grid1 = env.cartesian([(0, n * sp[a]) for a, n in enumerate(shape)], list(shape), periodic)
        L1 = env.num(env.IA.get_length_scale(env.field(grid1, data), method="droplet_detection", **kw))
        env.prove_eq("stretching the grid by lambda stretches the length by lambda", L, lam * L1)
        for a in range(dim):
            if periodic[a]:
                Lr = env.num(env.IA.get_length_scale(env.field(grid, env.np.roll(data, 1, axis=a)), method="droplet_detection", **kw))
                env.prove_eq(f"unchanged by translating the field along a periodic axis [{a}]", Lr, L)
        if rule in ("extrema", "mean"):
            Lc = env.num(env.IA.get_length_scale(env.field(grid, c * data), method="droplet_detection", **kw))
            env.prove_eq("unchanged by multiplying the field with a positive constant (automatic threshold rules)", Lc, L)
        env.cover("several droplets", n0 >= 2)
        env.observe("L", L)


HARNESSES = [C17Mean, C17Count]
