"""C20 - collections stay aligned and own their droplets under any sequence of edits"""
from fractions import Fraction as F
import itertools
import math

from symx.runner import Harness
from harness.c12 import V, S
from harness.c08 import same_number


def choice(env, name, n):
    """an integer in range(n) chosen by the solver (one path per value); replayed from the witness"""
    x = env.real(name, 0, n, strict_hi=True)
    if env.mode == "float":
        return int(math.floor(x))
    for k in range(n):
        if env.is_true(env.And(x >= k, x < k + 1)):
            return k
    raise AssertionError("unreachable")


class DropletPool:
    """hands out fresh DiffuseDroplets with symbolic parameters and remembers the caller-held objects"""

    def __init__(self, env, dim, maxn):
        self.env, self.dim, self.k, self.maxn = env, dim, 0, maxn
        self.held = []      # (droplet object kept by the caller, model values at hand-over)

    def new(self, unset_width=False):
        env, k = self.env, self.k
        self.k += 1
        p = [env.real(f"d{k}p{i}", -3, 3) for i in range(self.dim)]
        r = env.real(f"d{k}r", 0, 2)
        w = None if unset_width else env.real(f"d{k}w", 0, 1)
        return env.D.DiffuseDroplet(p, r, w)


def vals(env, d):
    """model entry of a droplet: (position list, radius, width or None)"""
    w = d.interface_width
    return ([env.num(x) for x in d.position], env.num(d.radius), None if w is None else env.num(w))


def same_vals(env, a, b):
    (pa, ra, wa), (pb, rb, wb) = a, b
    if (wa is None) != (wb is None) or len(pa) != len(pb):
        return False
    ok = all(bool(env.eq(x, y)) for x, y in zip(pa, pb)) and bool(env.eq(ra, rb))
    return ok and (wa is None or bool(env.eq(wa, wb)))


def sample_pool(w, rng, dim, n):
    for k in range(n):
        for i in range(dim):
            w[f"d{k}p{i}"] = F(rng.randint(-3000, 3000), 1000)
        w[f"d{k}r"] = F(rng.randint(0, 2000), 1000)
        w[f"d{k}w"] = F(rng.randint(0, 1000), 1000)
        w[f"n{k}r"] = F(rng.randint(0, 2000), 1000)


EM_OPS = ["append", "extend2", "copy", "slice", "add", "remove_small", "remove_overlapping", "linked_write",
          "merge_member", "reinit", "append_nocopy", "getitem_mutate"]


class C20Emulsion(Harness):
    name = "C20Emulsion"
    prop = "C20"
    bounds = ("Emulsion under every sequence of 2 (thorough 3) operations out of 12 (append, extend, copy, slice, +, "
              "remove_small, remove_overlapping, get_linked_data + write, in-place merge of members, re-construction, "
              "append(copy=False), mutation through __getitem__) starting from 2 DiffuseDroplets (1D; thorough: 3 operations in 1D, 2 in 2D), "
              "all parameters symbolic; after every step: content = list model, caller-held droplets mutated (aliasing "
              "probe), summary queries = definitions, order independence")
    stubs = ["numpy structured records = SYMX record model (copy / view semantics validated against numpy)"]
    cost = 4
    exact_validation = False

    def configs(self, tier):
        out = []
        for dim, L in (((1, 3), (2, 2)) if tier == "thorough" else ((1, 2),)):
            for first in range(len(EM_OPS)):
                for second in range(len(EM_OPS)):
                    out.append(dict(dim=dim, L=L, first=first, second=second))
        return out

    def sample(self, cfg, rng):
        w = {}
        sample_pool(w, rng, cfg["dim"], 10)
        for i in range(cfg["L"]):
            w[f"op{i}"] = F(rng.randint(0, len(EM_OPS) * 1000 - 1), 1000)
            w[f"m{i}"] = F(rng.randint(-500, 2000), 1000)
        return w

    # ---- checks after every step
    def check(self, env, tag, em, M, held):
        env.prove(f"{tag}: number of droplets = list model", len(em) == len(M))
        if len(em) != len(M):
            return False
        for i, (d, m) in enumerate(zip(em, M)):
            env.prove(f"{tag}: member equals the list model [{i}]", same_vals(env, vals(env, d), m))
        # aliasing probe: change every droplet the caller still holds, the collection must not notice
        for k, obj in enumerate(held):
            obj.radius = env.real(f"n{k}r", 0, 2)
        for i, (d, m) in enumerate(zip(em, M)):
            env.prove(f"{tag}: later changes to the caller's droplets do not leak in [{i}]", same_vals(env, vals(env, d), m))
        self.summaries(env, tag, em, M)
        return True

    def summaries(self, env, tag, em, M):
        dim = len(M[0][0]) if M else None
        n = len(M)
        env.prove(f"{tag}: count", len(em) == n)
        st = em.get_size_statistics()
        env.prove(f"{tag}: statistics count", st["count"] == n)
        if n == 0:
            env.prove(f"{tag}: empty emulsion has no interface width", em.interface_width is None)
            return
        radii = [m[1] for m in M]
        vols = [V(env, r, dim) for r in radii]
        env.prove_eq(f"{tag}: mean radius", st["radius_mean"] * n, sum(radii[1:], radii[0]))
        env.prove_eq(f"{tag}: mean volume", st["volume_mean"] * n, sum(vols[1:], vols[0]))
        mean_r = sum(radii[1:], radii[0]) / n
        var_r = sum(((r - mean_r) * (r - mean_r) for r in radii), env.const(0)) / n
        sd = env.num(st["radius_std"])
        env.prove(f"{tag}: spread of radii (population standard deviation)", env.And(sd >= 0, env.eq(sd * sd, var_r)))
        env.prove_eq(f"{tag}: total volume", em.total_droplet_volume, sum(vols[1:], vols[0]))
        # area-weighted interface width
        num = env.const(0)
        den = env.const(0)
        for (p, r, w) in M:
            if w is not None:
                a = S(env, r, dim)
                num, den = num + w * a, den + a
        iw = em.interface_width
        if env.is_true(den > 0):
            env.prove(f"{tag}: area-weighted interface width", iw is not None and bool(env.eq(env.num(iw) * den, num)))
        else:
            env.prove(f"{tag}: no interface area: width undefined", iw is None)
        bb = em.bbox
        for a in range(dim):
            lo = env.min(*[p[a] - r for p, r, w in M])
            hi = env.max(*[p[a] + r for p, r, w in M])
            env.prove(f"{tag}: bounding box [{a}]", env.And(env.eq(bb.bounds[a][0], lo), env.eq(bb.bounds[a][1], hi)))
        rev = env.E.Emulsion(list(reversed(list(em))))
        st2 = rev.get_size_statistics()
        env.prove_eq(f"{tag}: statistics do not depend on member order", st2["radius_mean"], st["radius_mean"])
        iw2 = rev.interface_width
        env.prove(f"{tag}: interface width does not depend on member order",
                  (iw is None and iw2 is None) or (iw is not None and iw2 is not None and bool(env.eq(iw, iw2))))

    def body(self, env, cfg):
        dim = cfg["dim"]
        pool = DropletPool(env, dim, 10)
        d0, d1 = pool.new(), pool.new(unset_width=(dim == 1))
        M = [vals(env, d0), vals(env, d1)]
        em = env.E.Emulsion([d0, d1])
        held = [d0, d1]
        if not self.check(env, "initial", em, M, held):
            return
        held = []
        for step in range(cfg["L"]):
            forced = cfg["first"] if step == 0 else (cfg.get("second") if step == 1 else None)
            op = EM_OPS[forced] if forced is not None else EM_OPS[choice(env, f"op{step}", len(EM_OPS))]
            tag = f"step {step} {op}"
            m = env.real(f"m{step}", -1, 2)
            if op == "append":
                d = pool.new()
                M.append(vals(env, d))
                em.append(d)
                held.append(d)
            elif op == "append_nocopy":
                d = pool.new()
                M.append(vals(env, d))
                em.append(d, copy=False)
                env.prove(f"{tag}: the very object is stored", env.same_object(em[-1], d))
            elif op == "extend2":
                a, b = pool.new(), pool.new()
                M += [vals(env, a), vals(env, b)]
                em.extend([a, b])
                held += [a, b]
            elif op == "copy":
                old = em
                em = em.copy()
                env.prove(f"{tag}: copy is a new collection with new members",
                          not env.same_object(em, old) and all(not env.same_object(x, y) for x, y in zip(em, old)))
                held += list(old)
            elif op == "slice":
                old = em
                em = em[1:]
                M = M[1:]
                env.prove(f"{tag}: slice is an Emulsion", type(em).__name__ == "Emulsion")
                held += list(old)
            elif op == "add":
                other = env.E.Emulsion([pool.new()])
                M = M + [vals(env, other[0])]
                old = em
                em = em + other
                env.prove(f"{tag}: sum is an Emulsion", type(em).__name__ == "Emulsion")
                held += list(old) + list(other)
            elif op == "remove_small":
                em.remove_small(m)
                M = [x for x in M if env.is_true(x[1] > m)]
            elif op == "remove_overlapping":
                if len(em) > 3:
                    continue        # cut: the removal order of >3 symbolic droplets is C10's subject
                before = [vals(env, d) for d in em]
                em.remove_overlapping(m)
                after = [vals(env, d) for d in em]
                # C10 decides which members go; here: the survivors are an ordered sub-list of the members
                it = iter(before)
                ok = all(any(same_vals(env, a, b) for b in it) for a in after)
                env.prove(f"{tag}: survivors are an ordered sub-list of the members", ok)
                M = after
            elif op == "linked_write":
                if len(em) == 0:
                    continue
                data = em.get_linked_data()
                env.prove(f"{tag}: linked data has one row per droplet", len(data) == len(em))
                newr = env.real(f"n{9 - step}r", 0, 2)
                data[0]["radius"] = newr
                M[0] = (M[0][0], newr, M[0][2])
            elif op == "merge_member":
                if len(em) < 2:
                    continue
                vol = V(env, M[0][1], dim) + V(env, M[1][1], dim)
                if not env.is_true(vol > 0):
                    continue
                merged = em[0].merge(em[1])
                env.prove(f"{tag}: out-of-place merge leaves the members alone", same_vals(env, vals(env, em[0]), M[0])
                          and same_vals(env, vals(env, em[1]), M[1]))
                em[0].merge(em[1], inplace=True)
                M[0] = vals(env, merged)
            elif op == "reinit":
                old = em
                em = env.E.Emulsion(list(old))
                held += list(old)
            elif op == "getitem_mutate":
                if len(em) == 0:
                    continue
                newr = env.real(f"n{8 - step}r", 0, 2)
                em[0].radius = newr          # members are the stored objects: the change is visible
                M[0] = (M[0][0], newr, M[0][2])
            if not self.check(env, tag, em, M, held):
                return
            held = []
        # rejected members
        wrong_dim = env.D.DiffuseDroplet([0] * (dim + 1), 1, 1)
        wrong_layout = env.D.SphericalDroplet([0] * dim, 1)
        if len(em):
            env.expect_raises("wrong dimension is rejected when consistency is requested", (ValueError,),
                              lambda: em.append(wrong_dim, force_consistency=True))
            env.expect_raises("wrong data layout is rejected when consistency is requested", (ValueError,),
                              lambda: em.append(wrong_layout, force_consistency=True))
        env.observe("n", len(em))


TC_OPS = ["append_t", "append_auto", "clear", "slice", "construct_from", "construct_lists", "getitem", "append_list"]


class C20TimeCourse(Harness):
    name = "C20TimeCourse"
    prop = "C20"
    bounds = ("EmulsionTimeCourse under every sequence of 3 operations out of 8 (append with / without time, clear, slice, "
              "construction from another course followed by an append to the copy, construction from caller lists, item "
              "access, frames given as plain list / generator of droplets) starting from 2 frames; times and droplet parameters symbolic; times/emulsions stay paired; copies "
              "independent of their source; nearest-time lookup")
    stubs = C20Emulsion.stubs
    cost = 3
    exact_validation = False

    def configs(self, tier):
        return [dict(first=f, second=s) for f in range(len(TC_OPS)) for s in range(len(TC_OPS))]

    def sample(self, cfg, rng):
        w = {}
        sample_pool(w, rng, 1, 10)
        for i in range(8):
            w[f"t{i}"] = F(rng.randint(-5000, 5000), 1000)
        w["op2"] = F(rng.randint(0, len(TC_OPS) * 1000 - 1), 1000)
        w["q"] = F(rng.randint(-5000, 5000), 1000)
        return w

    def check(self, env, tag, etc, MT, ME):
        env.prove(f"{tag}: times and emulsions have equal length = model", len(etc) == len(MT) and
                  len(etc.times) == len(etc.emulsions) == len(MT))
        if not (len(etc.times) == len(etc.emulsions) == len(MT)):
            return False
        for i, ((t, e), mt, me) in enumerate(zip(etc.items(), MT, ME)):
            env.prove(f"{tag}: time stays paired with its emulsion [{i}]", same_number(env, t, mt) and len(e) == len(me)
                      and all(same_vals(env, vals(env, d), m) for d, m in zip(e, me)))
        return True

    def body(self, env, cfg):
        pool = DropletPool(env, 1, 10)
        tk = itertools.count()
        newt = lambda: env.real(f"t{next(tk)}", -5, 5)
        e0, e1 = env.E.Emulsion([pool.new()]), env.E.Emulsion([pool.new(), pool.new()])
        t0, t1 = newt(), newt()
        etc = env.E.EmulsionTimeCourse([e0, e1], [t0, t1])
        MT, ME = [t0, t1], [[vals(env, d) for d in e0], [vals(env, d) for d in e1]]
        if not self.check(env, "initial", etc, MT, ME):
            return
        # the caller's emulsions are copied on insertion
        e0[0].radius = env.real("n0r", 0, 2)
        self.check(env, "initial, after changing the caller's emulsion", etc, MT, ME)
        for step in range(3):
            forced = cfg["first"] if step == 0 else (cfg["second"] if step == 1 else None)
            op = TC_OPS[forced] if forced is not None else TC_OPS[choice(env, f"op{step}", len(TC_OPS))]
            tag = f"step {step} {op}"
            if op == "append_t":
                e, t = env.E.Emulsion([pool.new()]), newt()
                etc.append(e, t)
                MT, ME = MT + [t], ME + [[vals(env, d) for d in e]]
                e[0].radius = env.real(f"n{step + 1}r", 0, 2)
            elif op == "append_auto":
                e = env.E.Emulsion([pool.new()])
                etc.append(e)
                MT = MT + [(MT[-1] + 1) if MT else 0]
                ME = ME + [[vals(env, d) for d in e]]
            elif op == "append_list":
                # a frame handed over as a plain list of droplets (and the same droplet in two frames)
                d, t, t2 = pool.new(), newt(), newt()
                etc.append([d], t)
                etc.append((x for x in [d]), t2)
                MT, ME = MT + [t, t2], ME + [[vals(env, d)], [vals(env, d)]]
                d.radius = env.real(f"n{step + 1}r", 0, 2)      # the caller's droplet changes afterwards
                self.check(env, tag + " (caller's droplet changed)", etc, MT, ME)
                etc.emulsions[-1][0].radius = env.real(f"n{step + 4}r", 0, 2)   # and the stored one of the last frame
                ME[-1] = [vals(env, etc.emulsions[-1][0])]
            elif op == "clear":
                etc.clear()
                MT, ME = [], []
            elif op == "slice":
                old = etc
                etc = etc[1:]
                MT, ME = MT[1:], ME[1:]
                env.prove(f"{tag}: slice is a time course", type(etc).__name__ == "EmulsionTimeCourse")
                oldT, oldE = list(old.times), len(old.emulsions)
                etc.append(env.E.Emulsion([pool.new()]), newt())
                MT, ME = MT + [etc.times[-1]], ME + [[vals(env, d) for d in etc.emulsions[-1]]]
                env.prove(f"{tag}: appending to the slice leaves the source alone",
                          len(old.times) == len(oldT) and len(old.emulsions) == oldE)
            elif op == "construct_from":
                old = etc
                etc = env.E.EmulsionTimeCourse(old)
                oldn = len(old)
                e, t = env.E.Emulsion([pool.new()]), newt()
                etc.append(e, t)
                MT, ME = MT + [t], ME + [[vals(env, d) for d in e]]
                env.prove(f"{tag}: appending to a copy leaves the source alone (times and emulsions)",
                          len(old.times) == oldn and len(old.emulsions) == oldn and len(old) == oldn)
            elif op == "construct_lists":
                tl = list(MT)
                el = [env.E.Emulsion([env.D.DiffuseDroplet(p, r, w) for (p, r, w) in me]) for me in ME]
                etc = env.E.EmulsionTimeCourse(el, tl)
                tl.append(newt())           # the caller's lists are not the collection's
                el.append(env.E.Emulsion([pool.new()]))
            elif op == "getitem":
                if len(MT) == 0:
                    continue
                e = etc[0]
                env.prove(f"{tag}: item access returns the stored emulsion", type(e).__name__ == "Emulsion" and len(e) == len(ME[0]))
            if not self.check(env, tag, etc, MT, ME):
                return
        if len(MT):
            q = env.real("q", -5, 5)
            got = etc.get_emulsion(q)
            idx = next((i for i, e in enumerate(etc.emulsions) if env.same_object(e, got)), None)
            env.prove("nearest-time lookup returns a stored emulsion", idx is not None)
            if idx is not None:
                env.prove("nearest-time lookup: no stored time is closer", env.And(*[
                    env.le(env.abs(MT[idx] - q), env.abs(t - q)) for t in MT]))
        env.observe("n", len(etc))


TR_OPS = ["append_t", "append_auto", "slice", "construct_from"]


class C20Track(Harness):
    name = "C20Track"
    prop = "C20"
    bounds = ("DropletTrack under every sequence of 3 operations out of 4 (append with / without time, slice, construction "
              "from another track + append) starting from 2 entries (1D and 2D); trajectories, radii, volumes, duration, "
              "time overlap, remove_short_tracks against their definitions; appended droplets are copies")
    stubs = C20Emulsion.stubs
    cost = 2
    exact_validation = False

    def configs(self, tier):
        return [dict(dim=d, first=f, second=s) for d in (1, 2) for f in range(len(TR_OPS)) for s in range(len(TR_OPS))]

    def sample(self, cfg, rng):
        w = {}
        sample_pool(w, rng, cfg["dim"], 10)
        t = F(rng.randint(-5000, 0), 1000)
        for i in range(8):
            w[f"t{i}"] = t
            t = t + F(rng.randint(1, 1500), 1000)
        w["op2"] = F(rng.randint(0, len(TR_OPS) * 1000 - 1), 1000)
        w["md"] = F(rng.randint(0, 4000), 1000)
        return w

    def check(self, env, tag, tr, MT, MD, dim):
        env.prove(f"{tag}: times and droplets have equal length = model", len(tr) == len(MT)
                  and len(tr.times) == len(tr.droplets) == len(MT))
        if not (len(tr.times) == len(tr.droplets) == len(MT)):
            return False
        for i, ((t, d), mt, md) in enumerate(zip(tr.items(), MT, MD)):
            env.prove(f"{tag}: time stays paired with its droplet [{i}]", same_number(env, t, mt)
                      and same_vals(env, vals(env, d), md))
        if MT:
            traj, radii, vols = tr.get_trajectory(), tr.get_radii(), tr.get_volumes()
            env.prove(f"{tag}: trajectory / radii / volumes have one entry per time", len(traj) == len(radii) == len(vols) == len(MT))
            for i, md in enumerate(MD):
                env.prove(f"{tag}: trajectory, radius and volume of entry [{i}]", env.And(
                    *[env.eq(traj[i][a], md[0][a]) for a in range(dim)], env.eq(radii[i], md[1]),
                    env.eq(vols[i], V(env, md[1], dim))))
            env.prove_eq(f"{tag}: duration = last - first time", tr.duration, MT[-1] - MT[0])
        else:
            env.prove(f"{tag}: empty track has zero duration", tr.duration == 0)
        return True

    def body(self, env, cfg):
        dim = cfg["dim"]
        pool = DropletPool(env, dim, 10)
        tk = itertools.count()

        def newt(prev):
            t = env.real(f"t{next(tk)}", -10, 10)
            if prev is not None:
                env.assume(prev < t, "times strictly increasing")
            return t

        d0, d1 = pool.new(), pool.new()
        t0 = newt(None)
        t1 = newt(t0)
        tr = env.T.DropletTrack([d0, d1], [t0, t1])
        MT, MD = [t0, t1], [vals(env, d0), vals(env, d1)]
        d0.radius = env.real("n0r", 0, 2)      # appended droplets are copies
        if not self.check(env, "initial", tr, MT, MD, dim):
            return
        for step in range(3):
            forced = cfg["first"] if step == 0 else (cfg["second"] if step == 1 else None)
            op = TR_OPS[forced] if forced is not None else TR_OPS[choice(env, f"op{step}", len(TR_OPS))]
            tag = f"step {step} {op}"
            if op == "append_t":
                d, t = pool.new(), newt(MT[-1] if MT else None)
                tr.append(d, t)
                MT, MD = MT + [t], MD + [vals(env, d)]
                d.radius = env.real(f"n{step + 1}r", 0, 2)
            elif op == "append_auto":
                d = pool.new()
                tr.append(d)
                MT, MD = MT + [(MT[-1] + 1) if MT else 0], MD + [vals(env, d)]
            elif op == "slice":
                old, oldn = tr, len(tr)
                tr = tr[1:]
                MT, MD = MT[1:], MD[1:]
                env.prove(f"{tag}: slice is a track", type(tr).__name__ == "DropletTrack")
                d, t = pool.new(), newt(MT[-1] if MT else None)
                tr.append(d, t)
                MT, MD = MT + [t], MD + [vals(env, d)]
                env.prove(f"{tag}: appending to the slice leaves the source alone",
                          len(old.times) == oldn and len(old.droplets) == oldn)
            elif op == "construct_from":
                old, oldn = tr, len(tr)
                tr = env.T.DropletTrack(old)
                d, t = pool.new(), newt(MT[-1] if MT else None)
                tr.append(d, t)
                MT, MD = MT + [t], MD + [vals(env, d)]
                env.prove(f"{tag}: appending to a copy leaves the source alone",
                          len(old.times) == oldn and len(old.droplets) == oldn)
            if not self.check(env, tag, tr, MT, MD, dim):
                return
        # time overlap and removal of short tracks
        other = env.T.DropletTrack([pool.new()], [MT[-1] if MT else 0])
        if MT:
            env.prove("tracks sharing a time point overlap in time", bool(tr.time_overlaps(other)))
        md = env.real("md", 0, 5)
        tl = env.T.DropletTrackList([tr, other])
        tl.remove_short_tracks(md)
        dur = (MT[-1] - MT[0]) if MT else env.const(0)
        keep = env.is_true(dur > md)
        env.prove("remove_short_tracks keeps exactly the tracks longer than the minimal duration",
                  len(tl) == (1 if keep else 0) and (not keep or env.same_object(tl[0], tr)))
        env.observe("n", len(tr))


LAYOUTS = [("SphericalDroplet", 1, 0), ("SphericalDroplet", 2, 0), ("SphericalDroplet", 3, 0),
           ("DiffuseDroplet", 1, 0), ("DiffuseDroplet", 2, 0), ("DiffuseDroplet", 3, 0),
           ("PerturbedDroplet2D", 2, 1), ("PerturbedDroplet2D", 2, 2), ("PerturbedDroplet2D", 2, 3),
           ("PerturbedDroplet3D", 3, 1), ("PerturbedDroplet3D", 3, 3), ("PerturbedDroplet3DAxisSym", 3, 1),
           ("PerturbedDroplet3DAxisSym", 3, 2)]


def layout_fields(cls, dim, modes):
    """the harness's own description of a data layout: (field name, length) pairs"""
    f = [("position", dim), ("radius", 1)]
    if cls != "SphericalDroplet":
        f.append(("interface_width", 1))
    if cls.startswith("Perturbed"):
        f.append(("amplitudes", modes))
    return tuple(f)


class C20Consistency(Harness):
    name = "C20Consistency"
    prop = "C20"
    bounds = ("every ordered pair of 13 droplet layouts (spherical / diffuse in 1-3 dimensions, perturbed 2D with 1-3, 3D with "
              "1 / 3, axisymmetric with 1 / 2 amplitudes; parameters symbolic): adding the second to a collection holding the "
              "first with force_consistency=True (append, extend, constructor, typed empty emulsion) raises ValueError "
              "exactly when dimension or data layout (fields and their lengths) differ, and otherwise stores an equal copy")
    stubs = C20Emulsion.stubs
    cost = 1
    exact_validation = False

    def configs(self, tier):
        return [dict(a=i, b=j) for i in range(len(LAYOUTS)) for j in range(len(LAYOUTS))]

    def sample(self, cfg, rng):
        return {k: F(rng.randint(1, 900), 1000) for k in ("ar", "br", "bw", "ba0", "ba1", "ba2")}

    def make(self, env, spec, tag):
        cls, dim, modes = spec
        r = env.real(f"{tag}r", 0, 2)
        pos = [0] * dim
        C = getattr(env.D, cls)
        if cls == "SphericalDroplet":
            return C(pos, r)
        w = env.real(f"{tag}w", 0, 1) if tag == "b" else F(1, 2) if env.mode != "float" else 0.5
        if cls == "DiffuseDroplet":
            return C(pos, r, w)
        amps = [env.real(f"{tag}a{k}", F(-1, 2), F(1, 2)) if tag == "b" else 0 for k in range(modes)]
        return C(pos, r, w, amps)

    def body(self, env, cfg):
        sa, sb = LAYOUTS[cfg["a"]], LAYOUTS[cfg["b"]]
        a, b = self.make(env, sa, "a"), self.make(env, sb, "b")
        same = layout_fields(*sa) == layout_fields(*sb)
        ways = {
            "append": lambda: (lambda em: (em.append(b, force_consistency=True), em)[1])(env.E.Emulsion([a])),
            "extend": lambda: (lambda em: (em.extend([b], force_consistency=True), em)[1])(env.E.Emulsion([a])),
            "constructor": lambda: env.E.Emulsion([a, b], force_consistency=True),
            "typed empty emulsion": lambda: (lambda em: (em.append(b, force_consistency=True), em)[1])(env.E.Emulsion.empty(a)),
        }
        for name, fn in ways.items():
            if not same:
                env.expect_raises(f"{name}: a droplet of another dimension or data layout is rejected when consistency is "
                                  "requested", (ValueError,), fn)
                continue
            em = fn()
            n = 1 if name == "typed empty emulsion" else 2
            env.prove(f"{name}: a droplet of the same layout is accepted", len(em) == n)
            got = em[-1]
            ok = type(got).__name__ == sb[0] and bool(env.eq(got.radius, b.radius)) and not env.same_object(got, b)
            if sb[0] != "SphericalDroplet":
                ok = ok and bool(env.eq(got.interface_width, b.interface_width))
            if sb[2]:
                ok = ok and len(got.amplitudes) == sb[2] and all(bool(env.eq(x, y)) for x, y in zip(got.amplitudes, b.amplitudes))
            env.prove(f"{name}: the stored droplet is an equal copy", ok)


HARNESSES = [C20Emulsion, C20TimeCourse, C20Track, C20Consistency]
