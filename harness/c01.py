"""C01 - locating a rendered emulsion returns each droplet once, with exact volume"""
from fractions import Fraction as F
import itertools
import math

from symx.runner import Harness
from harness import gridfam
from harness.oracle import dist_sq, minimage, surf_lt
from harness.c12 import V


def _ix(idx):
    return "[" + ",".join(str(i) for i in idx) + "]"


def _ceil_frac(x, den=64):
    return F(math.ceil(x * den), den)


class C01Cartesian(Harness):
    name = "C01Cartesian"
    prop = "C01"
    bounds = ("Cartesian grids: 1D 4/5/7 cells, 2D 3x3, 4x3, 4x4 (thorough: 5x4, 3x3x3), every periodicity mask, "
              "anisotropic spacing (3/4,5/4,1) with offset origin and unit spacing; K=1 droplet (K=2 on 1D 9-10 "
              "cells; thorough 2D 6x3); centre (within one period around the box on periodic axes) and radius symbolic")
    stubs = ["py-pde CartesianGrid / ScalarField model", "scipy.ndimage label (real) / center_of_mass, sum (exact)"]
    cost = 10
    mod_mode = "fork"

    def configs(self, tier):
        c = []

        def add(shape, pers, sps=("a",), orgs=("o",), K=1, cost=1, split=True):
            for per in pers:
                # the centre range along each periodic axis (one period around the box) is cut into the three
                # periods [lo-L,lo], [lo,hi], [hi,hi+L]: disjoint pieces of the input space, one task each
                segs = list(itertools.product(*[(0, 1, 2) if (ch == "p" and split and len(shape) > 1) else (None,)
                                                for ch in per]))
                for sp in sps:
                    for org in orgs:
                        for seg in segs:
                            c.append(dict(kind="cart", shape=list(shape), per=per, sp=sp, org=org, K=K,
                                          seg=list(seg), _cost=cost * (3 ** per.count("p")) / len(segs)))

        add((4,), "np", ("a", "iso"), ("o", "0"))
        add((5,), "np")
        add((7,), "np", ("b",))
        add((3, 3), ["nn", "pn", "np", "pp"], cost=10)
        add((4, 3), ["nn", "pn", "np"], cost=20)
        add((4, 4), ["nn"], cost=40)
        add((9,), "n", K=2, cost=10)
        if tier == "thorough":
            add((3, 4), ["pp"], ("iso",), ("0",), cost=30)
            add((9,), "p", K=2, cost=10)
            add((4, 3), ["pp"], cost=40)
            add((4, 4), ["pn", "np", "pp"], cost=60)
            add((5, 4), ["nn", "pn"], cost=60)
            add((3, 3), ["pp"], ("b", "iso"), ("0",), cost=20)
            add((3, 3, 3), ["nnn", "pnn", "nnp"], cost=100)
            add((10,), "np", ("b",), K=2, cost=15)
            add((6, 3), ["nn", "pn"], K=2, cost=100)
        return c

    def sample(self, cfg, rng):
        sp = gridfam.spec_of(cfg)
        w = {}
        for k in range(cfg["K"]):
            rmax = None
            for a, ((lo, hi), per) in enumerate(zip(sp["bounds"], sp["periodic"])):
                L = hi - lo
                m = (L - sp["spacing"][a]) / 2 if per else L / 2
                rmax = m if rmax is None else min(rmax, m)
            rmin = F(math.isqrt(int(sum(x * x for x in sp["spacing"]) * 10 ** 6)) + 1, 2000)
            if cfg["K"] == 2:
                rmax = min(rmax, rmin * 2)
            if rmax <= rmin:
                return None
            r = rmin + (rmax - rmin) * F(rng.randint(1, 999), 1000)
            w[f"r{k}"] = r
            for a, ((lo, hi), per) in enumerate(zip(sp["bounds"], sp["periodic"])):
                L = hi - lo
                g = cfg.get("seg", [None] * len(sp["shape"]))[a]
                if per and (g is None or k > 0):
                    w[f"c{k}_{a}"] = lo - L + 3 * L * F(rng.randint(0, 9999), 10000)
                elif per:
                    w[f"c{k}_{a}"] = lo + (g - 1) * L + L * F(rng.randint(0, 9999), 10000)
                else:
                    w[f"c{k}_{a}"] = lo + r + (L - 2 * r) * F(rng.randint(0, 10000), 10000)
        return w

    def body(self, env, cfg):
        grid, sp = gridfam.make(env, cfg)
        dim, K = len(sp["shape"]), cfg["K"]
        s = sp["spacing"]
        snorm2 = sum(x * x for x in s)
        sep = _ceil_frac(2 * math.sqrt(snorm2))          # rational upper bound of 2*|spacing|
        periods = gridfam.periods(env, sp)
        cellvol = F(1)
        for x in s:
            cellvol *= x
        C, R = [], []
        for k in range(K):
            c = []
            for a in range(dim):
                lo, hi = sp["bounds"][a]
                L = hi - lo
                g = cfg.get("seg", [None] * dim)[a]
                if not sp["periodic"][a]:
                    c.append(env.real(f"c{k}_{a}", lo, hi))
                elif g is None or k > 0:
                    c.append(env.real(f"c{k}_{a}", lo - L, hi + L))
                else:
                    c.append(env.real(f"c{k}_{a}", lo + (g - 1) * L, lo + g * L))
            r = env.real(f"r{k}", 0, strict_lo=True)
            env.assume(4 * r * r > snorm2, "resolvable: radius exceeds half the cell diagonal")
            for a in range(dim):
                lo, hi = sp["bounds"][a]
                if sp["periodic"][a]:
                    env.assume(2 * r <= (hi - lo) - s[a],
                               "periodic axis: diameter at most the period minus one cell (no self-contact)")
                else:
                    env.assume(env.And(c[a] - r >= lo, c[a] + r <= hi), "non-periodic axis: droplet inside the box")
            C.append(c)
            R.append(r)
        if K == 2:
            d2 = dist_sq(env, C[0], C[1], periods, kmax=3)
            env.assume(env.Not(surf_lt(env, d2, R[0] + R[1], sep)),
                       "well separated: periodic surface distance at least 2*|spacing| (rational upper bound)")
        drops = [env.D.SphericalDroplet(C[k], R[k]) for k in range(K)]
        em_in = env.E.Emulsion(drops)
        field = drops[0].get_phase_field(grid) if K == 1 else em_in.get_phasefield(grid)
        found = env.IA.locate_droplets(field)
        # ---- oracle: cells covered by each original (own min-image formula)
        cells = gridfam.cell_centres(sp)
        inside = [[dist_sq(env, ctr, C[k], periods, kmax=2) < R[k] * R[k] for k in range(K)] for _, ctr in cells]
        img = field.data
        ncov = 0
        for (idx, ctr), ins in zip(cells, inside):
            v = env.num(img[idx])
            on = env.is_true(v > 0.5)          # concrete on every path (rendering forked per cell)
            ncov += 1 if on else 0
            env.prove(f"rendered cell is 1 exactly when an original covers its centre {_ix(idx)}",
                      env.Iff(on, env.Or(*ins)))
            env.prove(f"rendered value is 0 or 1 {_ix(idx)}", env.Or(env.eq(v, 0), env.eq(v, 1)))
        counts = [sum((env.ite(ins[k], 1, 0) for ins in inside), env.const(0)) for k in range(K)] if K > 1 else [ncov]
        env.prove("exactly one droplet per original", len(found) == K)
        if len(found) != K:
            env.observe("found", len(found))
            return
        integ = env.E.Emulsion(drops).get_phasefield(grid).integral
        env.prove_eq("Emulsion.get_phasefield(grid).integral = covered cells * cell volume", integ, ncov * cellvol)
        for k in range(K):
            alts = []
            for j, d in enumerate(found):
                conds = [env.eq(V(env, env.num(d.radius), dim), counts[k] * cellvol), env.le(0, d.radius)]
                for a in range(dim):
                    delta = env.num(d.position[a]) - C[k][a]
                    if periods[a] is not None:
                        delta = minimage(env, delta, periods[a], kmax=3)
                    conds.append(env.le(env.abs(delta), s[a] / 2))
                alts.append(env.And(*conds))
            if K == 1:
                d = found[0]
                env.prove_eq("volume of located droplet = covered cells * cell volume",
                             V(env, env.num(d.radius), dim), counts[0] * cellvol)
                env.prove_eq("droplet.volume property agrees", d.volume, counts[0] * cellvol)
                for a in range(dim):
                    delta = env.num(d.position[a]) - C[0][a]
                    if periods[a] is not None:
                        delta = minimage(env, delta, periods[a], kmax=3)
                    env.prove_le(f"centre within half a cell of the original (periodic metric) [{a}]",
                                 env.abs(delta), s[a] / 2)
            else:
                env.prove(f"original has a located droplet with exact volume and centre within half a cell [{k}]",
                          env.Or(*alts))
        for j, d in enumerate(found):
            env.prove("located droplet is a plain SphericalDroplet of the grid's dimension",
                      type(d).__name__ == "SphericalDroplet" and d.dim == dim)
            for a in range(dim):
                if sp["periodic"][a]:
                    lo, hi = sp["bounds"][a]
                    p = env.num(d.position[a])
                    env.prove(f"position inside the box along periodic axis [{a}]", env.And(env.le(lo, p), p < hi))
        # ---- cover goals
        for a in range(dim):
            if sp["periodic"][a]:
                lo, hi = sp["bounds"][a]
                env.cover(f"droplet straddles the periodic boundary of axis {a}",
                          env.Or(C[0][a] - R[0] < lo, C[0][a] + R[0] > hi))
                env.cover(f"centre outside the box along axis {a}", env.Or(C[0][a] < lo, C[0][a] > hi))
        if dim >= 2 and all(sp["periodic"][:2]):
            env.cover("droplet straddles a periodic corner",
                      env.And(*[env.Or(C[0][a] - R[0] < sp["bounds"][a][0], C[0][a] + R[0] > sp["bounds"][a][1])
                                for a in range(2)]))
        env.observe("n", len(found))
        env.observe("radii", sorted(float(env.num(d.radius)) if env.mode != "sym" else 0 for d in found))


class C01Radial(Harness):
    name = "C01Radial"
    prop = "C01"
    bounds = "PolarSymGrid / SphericalSymGrid with N in {3,4,6} cells, outer radius in {1, 5/2, 7}; centred droplet, radius symbolic"
    stubs = ["py-pde PolarSymGrid / SphericalSymGrid model"]
    cost = 1

    def configs(self, tier):
        return [dict(kind=k, R=str(R), n=n) for k in ("polar", "spherical") for n, R in ((3, F(1)), (4, F(5, 2)), (6, F(7)))]

    def sample(self, cfg, rng):
        sp = gridfam.spec_of(cfg)
        return dict(r=sp["dr"] / 2 + (sp["R"] - sp["dr"] / 2) * F(rng.randint(1, 1000), 1000))

    def body(self, env, cfg):
        grid, sp = gridfam.make(env, cfg)
        dim, dr, n = sp["dim"], sp["dr"], sp["n"]
        r = env.real("r", 0, sp["R"])
        env.assume(2 * r > dr, "resolvable: radius exceeds half a radial cell")
        d = env.D.SphericalDroplet([0] * dim, r)
        field = d.get_phase_field(grid)
        found = env.IA.locate_droplets(field)
        ncov = 0
        for i in range(n):
            v = env.num(field.data[i])
            on = env.is_true(v > 0.5)
            ncov += 1 if on else 0
            env.prove(f"rendered shell is 1 exactly when its centre is inside [{i}]", env.Iff(on, (F(2 * i + 1, 2)) * dr < r))
        env.prove("exactly one droplet", len(found) == 1)
        if len(found) != 1:
            return
        f = found[0]
        for a in range(dim):
            env.prove_eq(f"located at the origin [{a}]", f.position[a], 0)
        env.prove_le("radius within half a radial spacing (upper)", env.num(f.radius) - r, dr / 2)
        env.prove_le("radius within half a radial spacing (lower)", r - env.num(f.radius), dr / 2)
        vols = grid.cell_volume_data[0]
        tot = sum((env.num(vols[i]) for i in range(ncov)), env.const(0))
        env.prove_eq("volume = total volume of the covered shells", V(env, env.num(f.radius), dim), tot)
        env.prove_eq("rendered integral = total volume of the covered shells", field.integral, tot)
        env.cover("all shells covered", ncov == n)
        env.cover("one shell covered", ncov == 1)
        env.observe("radius", f.radius)


class C01Cylindrical(Harness):
    name = "C01Cylindrical"
    prop = "C01"
    bounds = ("CylindricalSymGrid (Nr,Nz) in {(3,4),(3,5),(4,6)}, periodic_z both; on-axis droplet inside the z-range; "
              "z0 and radius symbolic")
    stubs = ["py-pde CylindricalSymGrid model (difference_vector as in py-pde 0.58)"]
    cost = 6

    def configs(self, tier):
        c = []
        for (nr, nz, R, z0, z1) in ((3, 4, "3/2", "-1", "3"), (3, 5, "3", "0", "5/2")) + (
                ((4, 6, "2", "-1/3", "17/3"),) if tier == "thorough" else ()):
            for pz in (False, True):
                c.append(dict(kind="cyl", shape=[nr, nz], R=R, z0=z0, z1=z1, pz=pz))
        return c

    def sample(self, cfg, rng):
        sp = gridfam.spec_of(cfg)
        rmin = F(math.isqrt(int((sp["dr"] ** 2 + sp["dz"] ** 2) * 10 ** 6)) + 1, 2000)
        rmax = min(sp["R"], (sp["z1"] - sp["z0"]) / 2)
        if rmax <= rmin:
            return None
        r = rmin + (rmax - rmin) * F(rng.randint(1, 999), 1000)
        return dict(r=r, z=sp["z0"] + r + (sp["z1"] - sp["z0"] - 2 * r) * F(rng.randint(0, 1000), 1000))

    def body(self, env, cfg):
        grid, sp = gridfam.make(env, cfg)
        nr, nz = sp["shape"]
        dr, dz = sp["dr"], sp["dz"]
        z = env.real("z", sp["z0"], sp["z1"])
        r = env.real("r", 0, sp["R"])
        env.assume(4 * r * r > dr * dr + dz * dz, "resolvable: radius exceeds half the cell diagonal")
        env.assume(env.And(z - r >= sp["z0"], z + r <= sp["z1"]), "droplet inside the z-range")
        d = env.D.SphericalDroplet([0, 0, z], r)
        field = d.get_phase_field(grid)
        found = env.IA.locate_droplets(field)
        vol = env.const(0)
        for i in range(nr):
            rho = F(2 * i + 1, 2) * dr
            for j in range(nz):
                zc = sp["z0"] + F(2 * j + 1, 2) * dz
                v = env.num(field.data[i, j])
                on = env.is_true(v > 0.5)
                env.prove(f"rendered cell is 1 exactly when its centre is inside [{i},{j}]",
                          env.Iff(on, rho * rho + (zc - z) * (zc - z) < r * r))
                if on:
                    vol = vol + 2 * env.pi * rho * dr * dz
        env.prove("exactly one droplet", len(found) == 1)
        if len(found) != 1:
            env.observe("found", len(found))
            return
        f = found[0]
        env.prove_eq("on the axis [0]", f.position[0], 0)
        env.prove_eq("on the axis [1]", f.position[1], 0)
        env.prove_le("z within half a cell", env.abs(env.num(f.position[2]) - z), dz / 2)
        env.prove_eq("volume = total volume of the covered cells", V(env, env.num(f.radius), 3), vol)
        env.prove_eq("rendered integral = total volume of the covered cells", field.integral, vol)
        if sp["pz"]:
            p = env.num(f.position[2])
            env.prove("z inside the box (periodic axis)", env.And(env.le(sp["z0"], p), env.le(p, sp["z1"])))
        env.observe("radius", f.radius)


HARNESSES = [C01Cartesian, C01Radial, C01Cylindrical]
