"""C13 - a perturbed droplet's volume, surface, curvature and outline match its shape (decidable part)"""
from fractions import Fraction as F
import math

from symx.runner import Harness
from harness.c03 import interface_2d, real_harmonic


def first_order(env, tag, n, make, ref, tol=2e-4):
    """value and every first derivative with respect to the amplitudes agree at zero amplitudes.

    symbolic side: the code runs once with all amplitudes symbolic and non-zero (so every mode's branch is
    taken), the resulting term is differentiated symbolically and evaluated at 0; float side: finite differences."""
    if env.mode == "float":
        h = 1e-6
        z = [0.0] * n
        f0, r0 = float(make(z)), float(ref(z))
        env.prove_eq(f"{tag}: value at zero amplitudes", f0, r0)
        for k in range(n):
            e = list(z)
            e[k] = h
            df, dr = (float(make(e)) - f0) / h, (float(ref(e)) - r0) / h
            env._rec(f"{tag}: first-order coefficient of amplitude [{k}]", abs(df - dr) <= tol * (1 + abs(df) + abs(dr)),
                     f"{df!r} != {dr!r}")
        return
    from symx.core import toz, SR
    from symx.diff import diff, at_zero
    amps = [env.real(f"eps{k}", -1, 1) for k in range(n)]
    for a in amps:
        env.assume(a != 0, "amplitudes non-zero on the path that is differentiated (every mode's branch is taken)")
    f, r = env.num(make(amps)), env.num(ref(amps))
    fz, rz, xs = toz(f), toz(r), [toz(a) for a in amps]
    from symx.core import _vars_of, Abort
    if any(v.split("!")[0] in ("sqrt", "cbrt", "mod") for v in _vars_of(fz) | _vars_of(rz)):
        raise Abort("unsupported", "differentiation through an implicitly defined value (root / modulo)")
    env.prove_eq(f"{tag}: value at zero amplitudes", SR(at_zero(fz, xs)), SR(at_zero(rz, xs)))
    for k in range(n):
        env.prove_eq(f"{tag}: first-order coefficient of amplitude [{k}]", SR(at_zero(diff(fz, xs[k]), xs)),
                     SR(at_zero(diff(rz, xs[k]), xs)))


def hk(k):
    l = math.isqrt(k)
    return F(l * l + l - 2, 2)


class C13Curvature(Harness):
    name = "C13Curvature"
    prop = "C13"
    bounds = ("interface_curvature of PerturbedDroplet2D (2-6 amplitudes), PerturbedDroplet3D (3, 8 amplitudes), "
              "PerturbedDroplet3DAxisSym (2-4 amplitudes) at symbolic angles and radius > 0: value and every first-order "
              "coefficient equal those of the true mean curvature 1/R + sum eps_k h_k Y_k / R (2D: (1/R)(1 + sum (n^2-1)(...)))")
    stubs = ["sin/cos / spherical harmonics as functionally consistent symbols", "reference = textbook first-order mean "
             "curvature of r = R(1 + eps Y) (trusted)", "symbolic differentiation of the resulting term (symx.diff)"]
    cost = 2
    check_defined = False
    exact_validation = False

    def configs(self, tier):
        c = [dict(cls="PerturbedDroplet2D", modes=m) for m in (2, 4) + ((6,) if tier == "thorough" else ())]
        c += [dict(cls="PerturbedDroplet3D", modes=m) for m in (3,) + ((8,) if tier == "thorough" else (5,))]
        c += [dict(cls="PerturbedDroplet3DAxisSym", modes=m) for m in (2, 3) + ((4,) if tier == "thorough" else ())]
        return c

    def sample(self, cfg, rng):
        w = dict(R=F(rng.randint(500, 3000), 1000), th=F(rng.randint(100, 3000), 1000), ph=F(rng.randint(0, 6000), 1000))
        for k in range(cfg["modes"]):
            w[f"eps{k}"] = F(rng.randint(1, 300), 1000)
        return w

    def body(self, env, cfg):
        cls, n = cfg["cls"], cfg["modes"]
        R = env.real("R", F(1, 10), 5)
        th = env.real("th", 0, F(314, 100))
        ph = env.real("ph", 0, F(628, 100))
        pos = [0, 0] if cls == "PerturbedDroplet2D" else [0, 0, 0]
        C = getattr(env.D, cls)

        def make(amps):
            d = C(pos, R, F(1, 2) if env.mode != "float" else 0.5, amps)
            if cls == "PerturbedDroplet2D":
                return d.interface_curvature(ph)
            if cls == "PerturbedDroplet3D":
                return d.interface_curvature(th, ph)
            return d.interface_curvature(th)

        def ref(amps):
            if cls == "PerturbedDroplet2D":
                g = 0
                for k, a in enumerate(amps):
                    m = k // 2 + 1
                    ang = env.lift(m * ph)
                    g = g + a * (m * m - 1) * (env.sin(ang) if k % 2 == 0 else env.cos(ang))
                return (1 + g) / R
            tot = 0
            for k, a in enumerate(amps):
                kk = (k + 1) if cls == "PerturbedDroplet3D" else (k + 1) * (k + 2)
                tot = tot + a * hk(kk) * real_harmonic(env, kk, th, ph if cls == "PerturbedDroplet3D" else 0)
            return 1 / R + tot / R

        first_order(env, "curvature", n, make, ref)
        zero = make([0] * n)
        env.prove_eq("all amplitudes zero: curvature of a sphere", env.num(zero) * R, 1)


class C13Shape(Harness):
    name = "C13Shape"
    prop = "C13"
    bounds = ("interface_distance / interface_position of the three perturbed classes at symbolic angles (2D: 1-4 amplitudes, "
              "3D: 1-4, axisymmetric: 1-3), all parameters symbolic; 2D volume closed form; approximate 3D volume to first "
              "order; zero-amplitude limits incl. the 256-node surface quadrature in 2D")
    stubs = ["sin/cos with s^2+c^2=1, spherical harmonics as symbols", "reference volume of r=R(1+f): pi R^2 (1+sum eps^2/2) in "
             "2D, 4 pi R^3/3 + O(eps^2) in 3D (trusted closed forms)"]
    cost = 2
    check_defined = False
    exact_validation = False

    def configs(self, tier):
        c = [dict(cls="PerturbedDroplet2D", modes=m) for m in (1, 2, 4)]
        c += [dict(cls="PerturbedDroplet3D", modes=m) for m in (1, 3) + ((4,) if tier == "thorough" else ())]
        c += [dict(cls="PerturbedDroplet3DAxisSym", modes=m) for m in (1, 3)]
        c += [dict(cls="PerturbedDroplet2D", modes=2, zero=True), dict(cls="PerturbedDroplet3D", modes=3, zero=True),
              dict(cls="PerturbedDroplet3DAxisSym", modes=2, zero=True)]
        c += [dict(cls="PerturbedDroplet2D", modes=m, odd=True) for m in ((1, 3) if tier == "thorough" else (1,))]
        return c

    def sample(self, cfg, rng):
        w = dict(R=F(rng.randint(500, 3000), 1000), th=F(rng.randint(100, 3000), 1000), ph=F(rng.randint(0, 6000), 1000),
                 p0=F(rng.randint(-2000, 2000), 1000), p1=F(rng.randint(-2000, 2000), 1000), p2=F(rng.randint(-2000, 2000), 1000))
        for k in range(cfg["modes"]):
            w[f"a{k}"] = F(rng.randint(-300, 300), 1000)
            w[f"eps{k}"] = F(rng.randint(1, 300), 1000)
        return w

    def body(self, env, cfg):
        cls, n = cfg["cls"], cfg["modes"]
        R = env.real("R", F(1, 10), 5)
        th = env.real("th", 0, F(314, 100))
        ph = env.real("ph", 0, F(628, 100))
        two_d = cls == "PerturbedDroplet2D"
        axis = cls == "PerturbedDroplet3DAxisSym"
        p = [env.real("p0", -3, 3), env.real("p1", -3, 3)] if two_d else (
            [0, 0, env.real("p2", -3, 3)] if axis else [env.real(f"p{i}", -3, 3) for i in range(3)])
        C = getattr(env.D, cls)
        half = F(1, 2) if env.mode != "float" else 0.5
        if cfg.get("zero"):
            d = C(p, R, half, [0] * n)
            dist = d.interface_distance(ph) if two_d else (d.interface_distance(th) if axis else d.interface_distance(th, ph))
            env.prove_eq("all amplitudes zero: interface distance = radius", dist, R)
            if two_d:
                env.prove_eq("all amplitudes zero: volume of a disc", d.volume, env.pi * R * R)
                env.prove_eq("all amplitudes zero: perimeter of a circle (256-node quadrature)", d.surface_area, 2 * env.pi * R)
                env.prove_eq("all amplitudes zero: approximate perimeter", d.surface_area_approx, 2 * env.pi * R)
            else:
                env.prove_eq("all amplitudes zero: approximate volume of a sphere", d.volume_approx,
                             env.const(F(4, 3)) * env.pi * R * R * R)
            return
        amps = [env.real(f"a{k}", -1, 1) for k in range(n)]
        d = C(p, R, half, amps)
        if cfg.get("odd"):
            # an unpaired last sine amplitude describes the same shape as the pair (a, 0)
            d2 = C(p, R, half, amps + [0])
            env.prove_eq("odd number of amplitudes: interface distance as with a zero cosine amplitude",
                         d.interface_distance(ph), d2.interface_distance(ph))
            env.prove_eq("odd number of amplitudes: curvature", d.interface_curvature(ph), d2.interface_curvature(ph))
            env.prove_eq("odd number of amplitudes: volume", d.volume, d2.volume)
            env.prove_eq("odd number of amplitudes: perimeter (256-node quadrature)", d.surface_area, d2.surface_area)
            env.prove_eq("odd number of amplitudes: approximate perimeter", d.surface_area_approx, d2.surface_area_approx)
            return
        if two_d:
            I = interface_2d(env, R, amps, ph)
            env.prove_eq("interface distance = R (1 + sum a_n sin(n phi) + b_n cos(n phi))", d.interface_distance(ph), I)
            pos = d.interface_position(ph)
            env.prove_eq("interface position = centre + distance * (cos, sin) [0]", pos[0], p[0] + I * env.cos(ph))
            env.prove_eq("interface position = centre + distance * (cos, sin) [1]", pos[1], p[1] + I * env.sin(ph))
            sq = sum((a * a for a in amps), env.const(0))
            env.prove_eq("volume = integral of r^2/2 = pi R^2 (1 + sum eps^2 / 2)", d.volume, env.pi * R * R * (1 + sq / 2))
            return
        if axis:
            I = R * (1 + sum((amps[k] * real_harmonic(env, (k + 1) * (k + 2), th, 0) for k in range(n)), env.const(0)))
            env.prove_eq("interface distance = R (1 + sum eps_l Y_l0)", d.interface_distance(th), I)
        else:
            I = R * (1 + sum((amps[k] * real_harmonic(env, k + 1, th, ph) for k in range(n)), env.const(0)))
            env.prove_eq("interface distance = R (1 + sum eps_k Y_k)", d.interface_distance(th, ph), I)
        pos = d.interface_position(th, ph)
        unit = [env.sin(th) * env.cos(ph), env.sin(th) * env.sin(ph), env.cos(th)]
        for i in range(3):
            env.prove_eq(f"interface position = centre + distance * unit vector [{i}]", pos[i], p[i] + I * unit[i])

        def make(e):
            return C(p, R, half, e).volume_approx

        first_order(env, "approximate volume vs. exact volume 4 pi R^3/3 + O(eps^2)", n, make,
                    lambda e: env.const(F(4, 3)) * env.pi * R * R * R + 0 * R)


class C13Index(Harness):
    name = "C13Index"
    prop = "C13"
    bounds = ("spherical_index_k / _lm / _count round trips for all degrees <= 40; real spherical harmonics of modes k <= 8 "
              "(thorough 15) equal the standard combination of the complex harmonics at symbolic angles; the "
              "axisymmetric harmonic equals the m=0 real harmonic")
    stubs = ["scipy.special.sph_harm_y as a fresh complex symbol per (l, m, theta, phi)"]
    cost = 1
    exact_validation = False

    def configs(self, tier):
        return [dict(kmax=8 if tier != "thorough" else 15)]

    def sample(self, cfg, rng):
        return dict(th=F(rng.randint(100, 3000), 1000), ph=F(rng.randint(0, 6000), 1000))

    def body(self, env, cfg):
        sp = env.SPH
        th = env.real("th", 0, F(314, 100))
        ph = env.real("ph", 0, F(628, 100))
        ok = True
        for l in range(0, 41):
            for m in range(-l, l + 1):
                k = sp.spherical_index_k(l, m)
                ok = ok and tuple(sp.spherical_index_lm(k)) == (l, m) and 0 <= k < sp.spherical_index_count(l)
            ok = ok and sp.spherical_index_count(l) == (l + 1) ** 2 and sp.spherical_index_count_optimal((l + 1) ** 2)
        env.prove("mode index round trip and counts for all degrees <= 40", bool(ok))
        env.expect_raises("order outside [-l, l] is rejected", (ValueError,), lambda: sp.spherical_index_k(2, 3))
        for k in range(cfg["kmax"] + 1):
            env.prove_eq(f"real harmonic of mode k = standard combination of Y_l^|m| [{k}]",
                         sp.spherical_harmonic_real_k(k, th, ph), real_harmonic(env, k, th, ph))
        for l in range(4):
            env.prove_eq(f"axisymmetric harmonic = real harmonic with m = 0 [{l}]",
                         sp.spherical_harmonic_symmetric(l, th), real_harmonic(env, l * (l + 1), th, 0))


def _float_sphere_integral(fn, n_theta=64, n_phi=128):
    """independent numerical reference (float runs): Gauss-Legendre in cos(theta) x trapezoid in phi, exact for
    harmonic polynomials far beyond the degrees used here"""
    import numpy as np
    x, w = np.polynomial.legendre.leggauss(n_theta)
    ph = np.linspace(0, 2 * np.pi, n_phi, endpoint=False)
    TH, PH = np.meshgrid(np.arccos(x), ph, indexing="ij")
    return float(np.sum(w[:, None] * fn(TH, PH)) * (2 * np.pi / n_phi))


def _float_real_harmonic(k, TH, PH):
    import numpy as np
    from scipy.special import sph_harm_y
    l = math.isqrt(k)
    m = k - l * (l + 1)
    y = sph_harm_y(l, abs(m), TH, PH)
    if m == 0:
        return y.real
    return (-1) ** abs(m) * np.sqrt(2) * (y.real if m > 0 else y.imag)


class C13Volume3D(Harness):
    name = "C13Volume3D"
    prop = "C13"
    bounds = ("PerturbedDroplet3D.volume with 1, 3, 4, 6 (thorough also 8) symbolic amplitudes in [-1, 1], radius and centre "
              "symbolic: equals the integral of r(theta, phi)^3 sin(theta) / 3 over the sphere, r = R (1 + sum eps_k Y_k) the "
              "oracle's interface distance; all amplitudes zero: 4 pi R^3 / 3")
    stubs = ["scipy.integrate.dblquad = the exact integral, defined on integrands sin(theta) * polynomial in the spherical "
             "harmonics of the integration variables over theta in [0, pi], phi in [0, 2 pi] (exact table of harmonic "
             "integrals, compared with an independent numerical quadrature in every float run); other domains / integrands: "
             "unsupported", "spherical harmonics as symbols", "QUADPACK's numerical error is outside the claim"]
    cost = 3
    check_defined = False
    exact_validation = False

    def configs(self, tier):
        return [dict(modes=m) for m in (1, 3, 4, 6) + ((8,) if tier == "thorough" else ())] + [dict(modes=3, zero=True)]

    def sample(self, cfg, rng):
        w = dict(R=F(rng.randint(500, 3000), 1000), p0=F(rng.randint(-2000, 2000), 1000),
                 p1=F(rng.randint(-2000, 2000), 1000), p2=F(rng.randint(-2000, 2000), 1000))
        for k in range(cfg["modes"]):
            w[f"a{k}"] = F(rng.randint(-300, 300), 1000)
        return w

    def body(self, env, cfg):
        n = cfg["modes"]
        R = env.real("R", F(1, 10), 5)
        p = [env.real(f"p{i}", -3, 3) for i in range(3)]
        half = F(1, 2) if env.mode != "float" else 0.5
        C = env.D.PerturbedDroplet3D
        if cfg.get("zero"):
            V = C(p, R, half, [0] * n).volume
            env.prove_eq("all amplitudes zero: volume of a sphere", V, env.const(F(4, 3)) * env.pi * R * R * R)
            return
        amps = [env.real(f"a{k}", -1, 1) for k in range(n)]
        V = C(p, R, half, amps).volume
        if env.mode == "float":
            import numpy as np
            from symx.models.integrate import table_float

            def r3(TH, PH):
                f = np.ones_like(TH)
                for k, a in enumerate(amps):
                    f = f + a * _float_real_harmonic(k + 1, TH, PH)
                return (R * f) ** 3 / 3

            ref = _float_sphere_integral(r3)
            # the exact table used by the symbolic side against the numerical quadrature (a mismatch is a harness error)
            for fs in ((("re", 2, 0),) * 3, (("re", 1, 1), ("re", 1, 1), ("re", 2, 0)), (("im", 2, 1), ("im", 2, 1), ("re", 2, 2)),
                       (("re", 2, 2), ("re", 2, 2)), ()):
                def prod(TH, PH, fs=fs):
                    from scipy.special import sph_harm_y
                    v = np.ones_like(TH)
                    for kind, l, m in fs:
                        y = sph_harm_y(l, m, TH, PH)
                        v = v * (y.real if kind == "re" else y.imag)
                    return v
                if abs(table_float(fs) - _float_sphere_integral(prod)) > 1e-10:
                    raise RuntimeError(f"table of harmonic integrals disagrees with numerical quadrature for {fs}")
        else:
            from symx.models.integrate import integrate_sphere

            def oracle(th, ph):
                f = env.const(1)
                for k, a in enumerate(amps):
                    f = f + a * real_harmonic(env, k + 1, th, ph)
                rr = R * f
                return rr * rr * rr * env.sin(th) / 3

            ref, _info = integrate_sphere(oracle, "oracle integrand")
        if env.mode == "float":
            env.prove_eq("volume = integral of r^3 sin(theta) / 3 over the sphere, r = R (1 + sum eps_k Y_k)", V, ref)
        else:
            # tolerance 1e-9 R^3: the code's real harmonics carry the double np.sqrt(2), so that an algebraically
            # equivalent closed form may differ from the integral by ~1e-16 in exact arithmetic
            V, ref = env.num(V), env.num(ref)
            tol = R * R * R / 10 ** 9
            env.prove("volume = integral of r^3 sin(theta) / 3 over the sphere, r = R (1 + sum eps_k Y_k)",
                      env.And(V - ref <= tol, ref - V <= tol),
                      margin=lambda dlt: env.Or(V - ref >= dlt, ref - V >= dlt))


HARNESSES = [C13Curvature, C13Shape, C13Index, C13Volume3D]
