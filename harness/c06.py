"""C06 - tracking neither loses, duplicates nor alters droplets"""
from fractions import Fraction as F
import itertools

from harness.tracks import TrackScenario, count_vectors, same_val
from harness.oracle import surf_lt


class C06Partition(TrackScenario):
    name = "C06Partition"
    prop = "C06"
    bounds = ("time courses of <=3 frames x <=2 droplets (quick; thorough adds {0..3}^3 and {0..2}^4 in 1D), "
              "1D and 2D, grid None / periodic Cartesian, both methods, with and without cut-off; positions, "
              "radii, times, cut-off symbolic; with and without the within-frame non-overlap hypothesis")

    def configs(self, tier):
        out = []
        for method in ("overlap", "distance"):
            for counts in count_vectors(3, 2):
                for grid in ("none", "p1"):
                    if grid == "p1" and sum(counts) > 4 and tier != "thorough":
                        continue
                    out.append(dict(counts=counts, dim=1, grid=grid, method=method, sep=sum(counts) % 2 == 0,
                                    _cost=2 ** sum(counts) * (3 if grid == "p1" else 1)))
            for counts in ([1, 1], [2, 1], [1, 2], [0, 2], [1, 0, 1], [1, 1, 1]):
                for grid in ("none", "pn"):
                    out.append(dict(counts=counts, dim=2, grid=grid, method=method, sep=True, _cost=2 ** sum(counts)))
        if tier == "thorough":
            for method in ("overlap", "distance"):
                for counts in ([2, 2], [2, 0, 1], [2, 1, 1]):
                    for grid in ("none", "pn"):
                        out.append(dict(counts=counts, dim=2, grid=grid, method=method, sep=True,
                                        _cost=2 ** sum(counts)))
                for counts in count_vectors(3, 3):
                    if max(counts) == 3:
                        out.append(dict(counts=counts, dim=1, grid="none", method=method, sep=True,
                                        _cost=2 ** sum(counts)))
                for counts in count_vectors(4, 2):
                    if sum(counts) <= 6:
                        out.append(dict(counts=counts, dim=1, grid="p1", method=method, sep=False,
                                        _cost=2 ** sum(counts)))
        return out

    def body(self, env, cfg):
        grid, periods, T, P, R, frames = self.build(env, cfg)
        nonoverlap = []
        for f in range(len(P)):
            for i, j in itertools.combinations(range(len(P[f])), 2):
                nonoverlap.append(env.Not(surf_lt(env, self.d2(env, P, periods, f, i, f, j), R[f][i] + R[f][j], 0)))
        if cfg["sep"] and nonoverlap:
            env.assume(env.And(*nonoverlap), "droplets within each frame do not overlap (periodic metric)")
        env.tag("distance_tracking_empty_frame",
                cfg["method"] == "distance" and any(c == 0 and any(cfg["counts"][:f]) for f, c in enumerate(cfg["counts"])))
        etc, tracks, maxd = self.run_tracker(env, cfg, grid, T, frames)
        ents = self.locate(env, cfg, etc, tracks, T, P, R)
        # the time course passed in is left unmodified
        env.prove("input: number of frames unchanged", len(etc.times) == len(T) and len(etc.emulsions) == len(T))
        for f in range(len(T)):
            env.prove(f"input: time unchanged [{f}]", same_val(env, etc.times[f], T[f]))
            env.prove(f"input: frame size unchanged [{f}]", len(etc.emulsions[f]) == len(P[f]))
            for k in range(min(len(etc.emulsions[f]), len(P[f]))):
                d = etc.emulsions[f][k]
                env.prove(f"input: droplet unchanged [{f},{k}]",
                          all(same_val(env, d.position[i], P[f][k][i]) for i in range(cfg["dim"]))
                          and same_val(env, d.radius, R[f][k]))
        if ents is None:
            return
        for ti, e in enumerate(ents):
            env.prove("no empty track", len(e) > 0)
        if cfg["sep"] or not nonoverlap:
            for ti, e in enumerate(ents):
                fs = [f for f, _ in e]
                env.prove("track holds at most one droplet per frame and covers consecutive frames",
                          fs == list(range(fs[0], fs[0] + len(fs))) if fs else True)
        env.cover("a track spans two frames", any(len(e) >= 2 for e in ents))
        env.cover("a new track starts after the first frame", any(e and e[0][0] > 0 for e in ents))
        env.observe("tracks", [[list(x) for x in e] for e in ents])


HARNESSES = [C06Partition]
