"""C14 - tracking during a simulation equals analysing the stored fields afterwards"""
from fractions import Fraction as F
import inspect
import json
import math
import os
import tempfile
import contextlib

from symx.runner import Harness
from harness import gridfam
from harness.c19 import patched
from harness.c08 import same_droplet, same_number, scratch
from harness.uf import UF, normalise

GRID = dict(kind="cart", shape=[4], per="n", sp="iso", org="0")


class Storage:
    """stand-in for a py-pde storage: iterating yields the stored fields, `.times` the stored times"""

    def __init__(self, fields, times):
        self.fields, self.times = list(fields), list(times)

    def __iter__(self):
        return iter(self.fields)

    def __len__(self):
        return len(self.fields)

    def __getitem__(self, i):
        return self.fields[i]

    def items(self):
        return zip(self.times, self.fields)


class LocateStub:
    """locate_droplets as an uninterpreted function of all its arguments"""

    def __init__(self, env, orig, frames):
        self.env, self.frames, self.calls = env, frames, []
        self.sig = inspect.signature(orig)
        self.uf = UF(env, "loc")

    def __call__(self, *a, **k):
        env = self.env
        b = self.sig.bind(*a, **k)
        b.apply_defaults()
        args = dict(b.arguments)
        field = args.pop("phase_field")
        fid = next((i for i, f in enumerate(self.frames) if f is field), None)
        if fid is None:       # a copy of the field (e.g. made by a process pool): identify it by its content
            fid = next((i for i, f in enumerate(self.frames) if f.data.shape == field.data.shape and all(
                same_number(env, x, y) for x, y in zip(f.data.flat, field.data.flat))), -1)
        args.pop("num_processes", None)
        sig = (fid, normalise(args))
        self.calls.append(sig)
        n = 1 + (fid % 2) if fid >= 0 else 1
        return env.E.Emulsion([env.D.SphericalDroplet([self.uf((sig, j, "x"))], self.uf((sig, j, "r")))
                               for j in range(n)])


class C14Tracker(Harness):
    name = "C14Tracker"
    prop = "C14"
    bounds = ("DropletTracker.handle over <=3 frames vs EmulsionTimeCourse.from_storage with the same settings; threshold "
              "(symbolic number or rule), minimal_radius symbolic, refine, refine_args, modes from a finite set; times "
              "symbolic (strictly increasing, may be negative or zero); file written by finalize read back")
    stubs = ["locate_droplets = uninterpreted function of all its arguments (any option not forwarded gives a different "
             "value)", "py-pde TrackerBase / storage stand-ins", "h5py store model"]
    cost = 1
    exact_validation = False

    SETTINGS = [
        dict(threshold="sym", minimal_radius="sym", refine=False, refine_args=None, modes=0),
        dict(threshold="mean", minimal_radius="sym", refine=True, refine_args={"vmin": None, "vmax": None}, modes=0),
        dict(threshold="otsu", minimal_radius=0, refine=True, refine_args={"adjust_values": True}, modes=2),
        dict(threshold="extrema", minimal_radius="sym", refine=False, refine_args=None, modes=1),
    ]

    def configs(self, tier):
        nfs = (0, 1, 3) if tier != "thorough" else (0, 1, 2, 3, 4, 5)
        return [dict(setting=s, nf=n, source=src) for s in range(len(self.SETTINGS)) for n in nfs
                for src in ("none", "callable") if not (src == "callable" and (n < 3 or (s > 1 and tier != "thorough")))]

    def sample(self, cfg, rng):
        w = dict(thr=F(rng.randint(100, 900), 1000), mr=F(rng.randint(0, 2000), 1000))
        t = F(rng.randint(-3000, 0), 1000)
        for f in range(cfg["nf"]):
            w[f"t{f}"] = t
            t = t + F(rng.randint(1, 2000), 1000)
        return w

    def body(self, env, cfg):
        grid, sp = gridfam.make(env, GRID)
        st = dict(self.SETTINGS[cfg["setting"]])
        thr = env.real("thr", 0, 1)
        mr = env.real("mr", 0, 3)
        if st["threshold"] == "sym":
            st["threshold"] = thr
        if st["minimal_radius"] == "sym":
            st["minimal_radius"] = mr
        times = []
        for f in range(cfg["nf"]):
            t = env.real(f"t{f}", -10, 10)
            if f:
                env.assume(times[-1] < t, "times strictly increasing")
            times.append(t)
        frames = [env.field(grid, env.array([F(k), F(f), 0, 1])) for f, k in enumerate(range(cfg["nf"]))]
        source = None if cfg["source"] == "none" else (lambda fld: fld)
        stub = LocateStub(env, env.IA.locate_droplets, frames)
        with patched(env.IA, "locate_droplets", stub), scratch(env, "tracker.hdf5") as path:
            tracker = env.TR.DropletTracker(1, filename=path, source=source, threshold=st["threshold"],
                                            minimal_radius=st["minimal_radius"], refine=st["refine"],
                                            refine_args=st["refine_args"], perturbation_modes=st["modes"])
            for f in range(cfg["nf"]):
                tracker.handle(frames[f], times[f])
            online_calls = list(stub.calls)
            stub.calls.clear()
            offline = env.E.EmulsionTimeCourse.from_storage(
                Storage(frames, times), refine=st["refine"], threshold=st["threshold"],
                minimal_radius=st["minimal_radius"], refine_args=st["refine_args"], modes=st["modes"])
            tracker.finalize()
            back = env.E.EmulsionTimeCourse.from_file(path, progress=False)
        data = tracker.data
        env.prove("one recorded frame per handled frame", len(data) == cfg["nf"] and len(data.times) == len(data.emulsions))
        env.prove("offline analysis has one frame per stored field", len(offline) == cfg["nf"])
        if len(data) != cfg["nf"] or len(offline) != cfg["nf"]:
            return
        env.prove("recorded time course == offline analysis (class equality)", data == offline)
        for f in range(cfg["nf"]):
            env.prove(f"identical time [{f}]", same_number(env, data.times[f], times[f])
                      and same_number(env, offline.times[f], times[f]))
            env.prove(f"same droplets as the offline analysis [{f}]", len(data.emulsions[f]) == len(offline.emulsions[f])
                      and all(same_droplet(env, a, b) for a, b in zip(data.emulsions[f], offline.emulsions[f])))
            env.prove(f"analysis called with the requested settings, online and offline [{f}]",
                      f < len(online_calls) and f < len(stub.calls) and repr(online_calls[f]) == repr(stub.calls[f]))
        env.prove("file written at the end reads back equal to the recorded data", back == data and len(back) == len(data)
                  and all(same_number(env, a, b) for a, b in zip(back.times, data.times)))
        env.cover("a frame at time zero that is not the first", env.Or(*[t == 0 for t in times[1:]]) if len(times) > 1 else False)
        env.observe("n", len(data))


class Boom(Exception):
    pass


class C14LengthScale(Harness):
    name = "C14LengthScale"
    prop = "C14"
    bounds = ("LengthScaleTracker.handle over 3 frames with get_length_scale replaced by a function that returns a value per "
              "(frame, method) or raises one of 7 exception types (which frames fail: symbolic, forked); finalize writes JSON")
    stubs = ["get_length_scale = function of (frame, method) that may raise", "py-pde TrackerBase stand-in"]
    cost = 1
    exact_validation = False
    EXC = [ValueError, ZeroDivisionError, IndexError, KeyError, NotImplementedError, FloatingPointError, Boom]

    def configs(self, tier):
        return [dict(method=m, exc=e) for m in ("structure_factor_mean", "structure_factor_maximum", "droplet_detection")
                for e in range(len(self.EXC))]

    def sample(self, cfg, rng):
        return {f"fail{f}": F(rng.randint(0, 1)) for f in range(3)}

    def body(self, env, cfg):
        grid, sp = gridfam.make(env, GRID)
        frames = [env.field(grid, env.array([F(f), 1, 0, 1])) for f in range(3)]
        fails = [env.is_true(env.real(f"fail{f}", 0, 1) > F(1, 2)) for f in range(3)]
        exc = self.EXC[cfg["exc"]]
        calls = []

        def fake_length_scale(field, method="structure_factor_mean", **kw):
            fid = next(i for i, fr in enumerate(frames) if fr is field)
            calls.append((fid, method, tuple(sorted(kw))))
            if fails[fid]:
                raise exc("analysis failed")
            return 1.5 + fid + len(method) / 100.0

        times = [0.0, 0.5, 2.0]
        with patched(env.IA, "get_length_scale", fake_length_scale), scratch(env, "ls.json") as path:
            if env.mode != "float":
                path = os.path.join(tempfile.gettempdir(), f"symx_c14_{os.getpid()}.json")
            tr = env.TR.LengthScaleTracker(1, filename=path, method=cfg["method"], verbose=False)
            raised = None
            for f in range(3):
                try:
                    tr.handle(frames[f], times[f])
                except Exception as e:      # noqa: BLE001 - the property says it never raises
                    raised = e
            tr.finalize()
            with open(path) as fp:
                dumped = json.load(fp)
            if env.mode != "float":
                os.remove(path)
        env.prove("handle never raises", raised is None)
        env.prove("one record per frame, times in order", tr.times == times[:len(tr.times)] and len(tr.times) == 3
                  and len(tr.length_scales) == 3)
        if len(tr.length_scales) != 3:
            return
        for f in range(3):
            v = tr.length_scales[f]
            if fails[f]:
                env.prove(f"failed analysis recorded as not-a-number [{f}]", isinstance(v, float) and math.isnan(v))
            else:
                env.prove(f"recorded value = value returned by the analysis of that frame [{f}]",
                          v == 1.5 + f + len(cfg["method"]) / 100.0)
            env.prove(f"analysis called with the frame and the requested method [{f}]",
                      f < len(calls) and calls[f][:2] == (f, cfg["method"]))
        env.prove("JSON file holds exactly the recorded lists", dumped["times"] == times and len(dumped["length_scales"]) == 3
                  and all((math.isnan(a) and math.isnan(b)) or a == b for a, b in zip(dumped["length_scales"], tr.length_scales)))
        env.cover("some frame fails", any(fails))
        env.cover("no frame fails", not any(fails))


HARNESSES = [C14Tracker, C14LengthScale]
