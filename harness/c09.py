"""C09 - analysis never aborts on valid input and returns finite droplets

C09 is the conjunction of (i) the exception and definedness obligations of the scenarios of the other
properties, re-run here in *crash-only* mode (post-conditions are skipped; an exception escaping a public
entry point on any feasible path, an operation outside its domain, or a non-finite result is a violation)
and (ii) a dedicated scenario that drives locate_droplets / DropletTracker through the real locator on
fields of symbolic values with every threshold rule and option combination."""
from fractions import Fraction as F
import itertools

from symx.runner import Harness
from harness import gridfam
from harness.c01 import C01Radial, C01Cylindrical
from harness.c02 import C02Cylindrical
from harness.c03 import C03Polar, C03Perturbed, C03Diffuse
from harness.c04 import C04Refine
from harness.c06 import C06Partition
from harness.c18 import C18Threshold, field_values, sample_values, cells_of, GRIDS as G18
from harness.c19 import C19Class, reset_optimizer


def crash_only(Base, name, keep=None, bounds=None):
    class W(Base):
        prop = "C09"
        exact_validation = False

        def install(self, env, cfg):
            Base.install(self, env, cfg)
            env.crash_only = True

        def configs(self, tier):
            cs = Base.configs(self, tier)
            return [c for c in cs if keep is None or keep(c)]

    W.name = name
    W.__name__ = name
    W.__qualname__ = name
    W.bounds = "crash-only re-run (exceptions, definedness, finiteness) of: " + (bounds or Base.bounds)
    return W


C09RenderRadial = crash_only(C01Radial, "C09RenderRadial")
C09LocateCylindrical = crash_only(C01Cylindrical, "C09LocateCylindrical")
C09MaskCylindrical = crash_only(C02Cylindrical, "C09MaskCylindrical", keep=lambda c: c["shape"] == [2, 3])
C09Polar = crash_only(C03Polar, "C09Polar", keep=lambda c: c.get("kind") != "cart" or len(c["shape"]) == 3)
C09RenderPerturbed = crash_only(C03Perturbed, "C09RenderPerturbed",
                                keep=lambda c: c["cls"] != "PerturbedDroplet2D" or c["shape"] == [2, 2])
C09RenderDiffuse = crash_only(C03Diffuse, "C09RenderDiffuse", keep=lambda c: c["width"] == "none" and c["kind"] != "cart")
C09Refine = crash_only(C04Refine, "C09Refine", keep=lambda c: c["g"] in ("polar", "sph", "cylq", "c1n"))
C09TrackEmptyFrames = crash_only(C06Partition, "C09TrackEmptyFrames", keep=lambda c: 0 in c["counts"] and c["dim"] == 1
                                 and c["grid"] == "none")
C09Threshold = crash_only(C18Threshold, "C09Threshold", keep=lambda c: c["g"] in ("p4", "polar3"))
C09Class = crash_only(C19Class, "C09Class", keep=lambda c: c["refine"] and c["g"] in ("c1", "polar", "sph", "cyl", "cylp"))


def finite_droplets(env, em):
    ok = True
    for d in em:
        for n in d.data.dtype.names:
            v = d.data[n]
            vs = list(env.np.asarray(v).reshape(-1)) if hasattr(v, "shape") and getattr(v, "shape", ()) != () else [v]
            for x in vs:
                if n == "interface_width" and isinstance(x, float) and x != x:
                    continue           # an unset width is stored as not-a-number
                ok = ok and env.finite(x)
    return ok


class C09Locate(Harness):
    name = "C09Locate"
    prop = "C09"
    bounds = ("locate_droplets through the real locator on fields of symbolic values (Cartesian 1D 4 cells n/p, 2D 2x2, polar "
              "3): threshold in {symbolic number, 'auto', 'extrema', 'mean', 'otsu' (1D only)}, symbolic minimal_radius, width "
              "given / not, modes in {0, 1}, refine off / on (contract stub; polar grid and 1D); DropletTracker.handle over 2 "
              "such frames; documented ValueError for modes in 1D and TypeError for a non-field argument")
    stubs = ["scipy.optimize.least_squares contract stub (no cost clause; cut: result within 1/2 of the start)",
             "np.histogram by its definition (Otsu)", "py-pde grid / field / tracker model"]
    cost = 4
    mod_mode = "fork"
    exact_validation = False

    def configs(self, tier):
        out = []
        for g in ("n4", "p4", "pn22", "polar3"):
            for rule in ("number", "auto", "extrema", "mean", "otsu"):
                if rule == "otsu" and g != "n4":
                    continue
                for modes in (0, 1):
                    for refine in (False, True):
                        if refine and (g in ("pn22", "p4") or rule not in ("number", "mean")):
                            continue
                        if refine and tier != "thorough" and not (g == "polar3" and rule == "mean"):
                            continue
                        if modes and rule not in ("number", "extrema"):
                            continue
                        gg = dict(G18[g])
                        if rule == "otsu":
                            gg = dict(kind="cart", shape=[2], per="n")      # 2 cells: the 256-bin histogram forks per value
                        out.append(dict(gg, g=g, rule=rule, modes=modes, refine=refine,
                                        _cost=(4 if refine else 1) * (3 if rule == "otsu" else 1)))
        out.append(dict(G18["n4"], g="n4", rule="number", modes=0, refine=False, tracker=True))
        out.append(dict(G18["polar3"], g="polar3", rule="extrema", modes=0, refine=False, tracker=True))
        return out

    def install(self, env, cfg):
        reset_optimizer(env, cost=False, window=F(1, 2))

    def sample(self, cfg, rng):
        sp = gridfam.spec_of(cfg)
        w = dict(t=F(rng.randint(-1500, 1500), 1000), mr=F(rng.randint(0, 1500), 1000), w=F(rng.randint(100, 1500), 1000))
        sample_values(sp, rng, w)
        sample_values(sp, rng, w, name="u")
        return w

    def body(self, env, cfg):
        grid, sp = gridfam.make(env, cfg)
        dim = len(sp["shape"]) if sp["kind"] == "cart" else sp["dim"]
        data, vals = field_values(env, sp)
        t = env.real("t", -2, 2)
        mr = env.real("mr", 0, 2)
        width = env.real("w", F(1, 10), 2)
        thr = t if cfg["rule"] == "number" else cfg["rule"]
        field = env.field(grid, data)
        if cfg.get("tracker"):
            data2, _ = field_values(env, sp, name="u")
            tr = env.TR.DropletTracker(1, threshold=thr, minimal_radius=mr)
            tr.handle(field, 0)
            tr.handle(env.field(grid, data2), F(1, 2) if env.mode != "float" else 0.5)
            tr.finalize()
            env.prove("tracker recorded both frames", len(tr.data) == 2)
            env.prove("tracked droplets are finite", all(finite_droplets(env, e) for e in tr.data))
            return
        if cfg["modes"] > 0 and dim == 1:
            env.expect_raises("documented error: perturbation modes in one dimension", (ValueError,),
                              lambda: env.IA.locate_droplets(field, threshold=thr, modes=cfg["modes"]))
            return
        for w_arg in (None, width):
            em = env.IA.locate_droplets(field, threshold=thr, minimal_radius=mr, modes=cfg["modes"], interface_width=w_arg,
                                        refine=cfg["refine"])
            env.prove(f"returned droplets are finite (width {'given' if w_arg is not None else 'unset'})", finite_droplets(env, em))
        env.expect_raises("documented error: a non-field argument raises TypeError", (TypeError,),
                          lambda: env.IA.locate_droplets(data, threshold=thr))
        env.cover("constant field", env.And(*[vals[i] == vals[cells_of(sp)[0]] for i in cells_of(sp)]))
        env.observe("n", len(em))


HARNESSES = [C09Locate, C09RenderRadial, C09LocateCylindrical, C09MaskCylindrical, C09Polar, C09RenderPerturbed,
             C09RenderDiffuse, C09Refine, C09TrackEmptyFrames, C09Threshold, C09Class]
