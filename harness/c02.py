"""C02 - each located droplet is one connected component under the grid's topology"""
from fractions import Fraction as F
import itertools
import math
import os

from symx.runner import Harness
from harness.components import components, max_matching
from harness.oracle import dist_sq, surf_lt
from harness.c12 import V


def _ix(idx):
    return "[" + ",".join(str(i) for i in idx) + "]"


def sphere_radius(env, vol, dim):
    if dim == 1:
        return vol / 2
    if dim == 2:
        return env.sqrt(vol / env.pi)
    return env.cbrt(3 * vol / (4 * env.pi))


class C02Cartesian(Harness):
    name = "C02Cartesian"
    prop = "C02"
    bounds = ("every binary image on Cartesian grids 1D <=6 cells, 2D 3x3 (thorough: 1D 8, 2D 4x3, doubly periodic 4x4, 3D 2x2x2 with "
              "concrete spacing), every periodicity mask; image bits symbolic (forked), grid spacing (ratios within "
              "[1/3,3]) and origin symbolic in 1D/2D")
    stubs = ["py-pde CartesianGrid / ScalarField model", "scipy.ndimage label (real) / center_of_mass, sum (exact)"]
    cost = 10
    mod_mode = "fork"

    def configs(self, tier):
        c = []

        def add(shape, pers, nfix, geo="sym", cost=1):
            cells = list(itertools.product(*[range(n) for n in shape]))
            for per in pers:
                for fix in itertools.product((0, 1), repeat=nfix):
                    c.append(dict(shape=list(shape), per=per, fix=list(fix), geo=geo,
                                  _cost=cost * 2 ** (len(cells) - nfix)))

        add((4,), "np", 0)
        add((6,), "np", 1)
        add((3, 3), ["nn", "pn", "np", "pp"], 3, geo=os.environ.get("C02GEO", "scale"))
        if tier == "thorough":
            add((8,), "np", 2)
            add((4, 3), ["nn", "pn", "np", "pp"], 5)
            add((4, 4), ["pp"], 8, geo="origin")      # all 65536 doubly periodic 4x4 images (chained merges of >= 4 pieces)
            add((2, 2, 2), ["nnn", "pnn", "ppp"], 1, geo="origin")
            add((2, 2, 3), ["nnp", "ppp"], 3, geo="origin")
            # 5x5 doubly periodic images around a staircase skeleton with three contacts across the boundary of axis 0
            # (pieces merged several times along one periodic axis, then along the other): 11 free cells, 2048 images
            # not yet run end-to-end on the unchanged tree: enabled with C02_STAIR=1 only, outside the registered claim
            tmpl = ["#.#?.", "#?.??", "?#???", ".?#??", "#.#.#"]
            nsplit = 4
            for fix in (() if os.environ.get("C02_STAIR") != "1" else itertools.product(".#", repeat=nsplit)):
                rows, it = [], iter(fix)
                for r in tmpl:
                    rows.append("".join(next(it, "?") if ch == "?" else ch for ch in r))
                c.append(dict(shape=[5, 5], per="pp", fix=[], tmpl=rows, geo="origin",
                              _cost=2 ** (sum(r.count("?") for r in rows))))
        return c

    def sample(self, cfg, rng):
        w = {}
        shape = cfg["shape"]
        for k, idx in enumerate(itertools.product(*[range(n) for n in shape])):
            if (cfg["tmpl"][idx[0]][idx[1]] == "?") if "tmpl" in cfg else k >= len(cfg["fix"]):
                w["v" + "_".join(map(str, idx))] = F(rng.choice([1, 9]), 10)
        geo = cfg.get("geo", "sym" if cfg.get("symgeo", True) else "origin")
        for a in range(len(shape)):
            if geo == "sym":
                w[f"dx{a}"] = F(rng.randint(400, 2900), 1000)
            w[f"lo{a}"] = F(rng.randint(-4000, 4000), 1000)
        if geo == "scale":
            w["scale"] = F(rng.randint(400, 2900), 1000)
        return w

    def body(self, env, cfg):
        shape = tuple(cfg["shape"])
        dim = len(shape)
        periodic = [ch == "p" for ch in cfg["per"]]
        conc_sp = [F(3, 4), F(5, 4), F(1)]
        geo = cfg.get("geo", "sym" if cfg.get("symgeo", True) else "origin")
        if geo == "sym":        # every spacing a free real
            dx = [env.real(f"dx{a}", F(1, 3), 3) for a in range(dim)]
            for a in range(1, dim):
                env.assume(env.And(dx[a] <= 3 * dx[0], dx[0] <= 3 * dx[a]), "spacing ratios within [1/3, 3]")
        elif geo == "scale":    # anisotropic spacing (3/4, 5/4, 1) times a free scale
            sc = env.real("scale", F(1, 3), 3)
            dx = [conc_sp[a] * sc for a in range(dim)]
        else:                   # concrete spacing, only the origin is free
            dx = [env.const(conc_sp[a]) for a in range(dim)]
        lo = [env.real(f"lo{a}", -4, 4) for a in range(dim)]
        L = [shape[a] * dx[a] for a in range(dim)]
        grid = env.cartesian([(lo[a], lo[a] + L[a]) for a in range(dim)], list(shape), periodic)
        periods = [L[a] if periodic[a] else None for a in range(dim)]
        cells = list(itertools.product(*[range(n) for n in shape]))
        data = env.np.empty(shape, dtype=object)
        for k, idx in enumerate(cells):
            if "tmpl" in cfg and cfg["tmpl"][idx[0]][idx[1]] != "?":
                data[idx] = cfg["tmpl"][idx[0]][idx[1]] == "#"
            elif "tmpl" not in cfg and k < len(cfg["fix"]):
                data[idx] = bool(cfg["fix"][k])
            else:
                data[idx] = env.real("v" + "_".join(map(str, idx)), 0, 1) > F(1, 2)
        mask = env.field(grid, data, dtype=bool)
        bits = {idx: bool(mask.data[idx]) for idx in cells}      # concrete on every path
        found = env.IA.locate_droplets_in_mask(mask)
        comps = components(bits, shape, periodic)
        cellvol = 1
        for a in range(dim):
            cellvol = cellvol * dx[a]
        nw = [c for c in comps if not c["winds"]]
        env.cover("empty image", len(comps) == 0)
        env.cover("a component crosses a periodic boundary", any(
            any(u != r for u, r in zip(c["unwrapped"], c["cells"])) for c in nw))
        env.cover("a winding component", any(c["winds"] for c in comps))
        env.cover("several components", len(comps) >= 2)
        if dim >= 2:
            env.cover("a component crosses a periodic corner", any(
                sum(1 for a in range(dim) if any(u[a] != r[a] for u, r in zip(c["unwrapped"], c["cells"]))) >= 2
                for c in nw))
        env.prove("result is an Emulsion of plain spherical droplets of the grid's dimension",
                  all(type(d).__name__ == "SphericalDroplet" and d.dim == dim for d in found))
        # ---- oracle data per component
        cvol = [c["size"] * cellvol for c in comps]
        cpos = [[lo[a] + c["com"][a] * dx[a] for a in range(dim)] for c in comps]
        crad = [sphere_radius(env, cvol[k], dim) for k in range(len(comps))]

        def pos_match(d, k):
            conds = []
            for a in range(dim):
                p = env.num(d.position[a])
                if periodic[a]:
                    conds.append(env.And(env.le(lo[a], p), p < lo[a] + L[a]))
                    if a in comps[k]["winds"]:
                        continue
                    conds.append(env.Or(*[env.eq(p, cpos[k][a] + j * L[a]) for j in range(-3, 4)]))
                else:
                    conds.append(env.eq(p, cpos[k][a]))
            return env.And(*conds) if conds else True

        # ---- every droplet is a distinct component
        adj = []
        for i, d in enumerate(found):
            env.prove_le(f"radius >= 0 [{i}]", 0, d.radius)
            cand = []
            for k, c in enumerate(comps):
                m = env.And(env.eq(V(env, env.num(d.radius), dim), cvol[k]), pos_match(d, k))
                if env.is_true(m):
                    cand.append(k)
            adj.append(cand)
            env.prove(f"droplet has the volume and (unwrapped, modulo the period) centre of mass of a component [{i}]",
                      len(cand) > 0)
        nmatch = max_matching(adj, len(found))
        env.prove("droplets correspond one-to-one to distinct components", nmatch == len(found))
        if nmatch != len(found) or any(not a for a in adj):
            env.observe("n", len(found))
            return
        # assignment (any maximum matching; used only to know which components are left out)
        assign = {}

        def try_(i, vis):
            for j in adj[i]:
                if j in vis:
                    continue
                vis.add(j)
                if j not in assign or try_(assign[j], vis):
                    assign[j] = i
                    return True
            return False

        for i in range(len(found)):
            try_(i, set())
        # ---- returned droplets do not overlap as equal-volume spheres (own min-image metric)
        for i, j in itertools.combinations(range(len(found)), 2):
            pi = [env.num(found[i].position[a]) for a in range(dim)]
            pj = [env.num(found[j].position[a]) for a in range(dim)]
            d2 = dist_sq(env, pi, pj, periods, kmax=1)
            env.prove(f"returned droplets do not overlap [{i},{j}]",
                      env.Not(surf_lt(env, d2, env.num(found[i].radius) + env.num(found[j].radius), 0)))
        # ---- a component is left out only if its sphere overlapped that of a component at least as large
        env.cover("a component is left out (removed for overlap)", len(assign) < len(comps))
        for k, c in enumerate(comps):
            if k in assign:
                continue
            if c["winds"]:
                continue       # no position defined for winding components: not constrained
            alts = []
            for j, c2 in enumerate(comps):
                if j == k or c2["size"] < c["size"]:
                    continue
                if c2["winds"]:
                    alts.append(True)
                    continue
                d2 = dist_sq(env, cpos[k], cpos[j], periods, kmax=4)
                alts.append(surf_lt(env, d2, crad[k] + crad[j], 0))
            env.prove(f"left-out component overlapped (as a sphere) a component at least as large [{k}]",
                      env.Or(*alts) if alts else False)
        env.observe("n", len(found))
        env.observe("ncomp", len(comps))


class C02Cylindrical(Harness):
    name = "C02Cylindrical"
    prop = "C02"
    bounds = ("every binary image on CylindricalSymGrid 2x3, 3x3 (periodic_z both), 3x4 with periodic z (thorough: 3x4 both, 3x5); image bits symbolic "
              "(forked); dr, dz and z-origin symbolic")
    stubs = ["py-pde CylindricalSymGrid model", "scipy.ndimage label / find_objects (real), center_of_mass / sum_labels (exact)"]
    cost = 8
    mod_mode = "fork"

    def configs(self, tier):
        c = []
        for shape, nfix in (((2, 3), 1), ((3, 3), 3), ((3, 4), 5)) + ((((3, 5), 7),) if tier == "thorough" else ()):
            for pz in (False, True):
                if shape in ((3, 4), (3, 5)) and not pz and tier != "thorough":
                    continue        # quick: the larger images only with periodic z (padding, winding, duplicates)
                for fix in itertools.product((0, 1), repeat=nfix):
                    c.append(dict(shape=list(shape), pz=pz, fix=list(fix), _cost=2 ** (shape[0] * shape[1] - nfix)))
        return c

    def sample(self, cfg, rng):
        w = {}
        for k, idx in enumerate(itertools.product(*[range(n) for n in cfg["shape"]])):
            if k >= len(cfg["fix"]):
                w["v" + "_".join(map(str, idx))] = F(rng.choice([1, 9]), 10)
        w["dr"] = F(rng.randint(400, 2900), 1000)
        w["dz"] = F(rng.randint(400, 2900), 1000)
        w["z0"] = F(rng.randint(-4000, 4000), 1000)
        return w

    def body(self, env, cfg):
        nr, nz = cfg["shape"]
        pz = cfg["pz"]
        dr, dz = env.real("dr", F(1, 3), 3), env.real("dz", F(1, 3), 3)
        env.assume(env.And(dr <= 3 * dz, dz <= 3 * dr), "spacing ratio within [1/3, 3]")
        z0 = env.real("z0", -4, 4)
        Lz = nz * dz
        grid = env.cylindrical(nr * dr, (z0, z0 + Lz), [nr, nz], pz)
        cells = list(itertools.product(range(nr), range(nz)))
        data = env.np.empty((nr, nz), dtype=object)
        for k, idx in enumerate(cells):
            if k < len(cfg["fix"]):
                data[idx] = bool(cfg["fix"][k])
            else:
                data[idx] = env.real("v" + "_".join(map(str, idx)), 0, 1) > F(1, 2)
        mask = env.field(grid, data, dtype=bool)
        bits = {idx: bool(mask.data[idx]) for idx in cells}
        found = env.IA.locate_droplets_in_mask(mask)
        comps = [c for c in components(bits, (nr, nz), [False, pz]) if any(cell[0] == 0 for cell in c["cells"])]
        anyc = any(bits.values())
        env.tag("cyl_periodic_winding_component", bool(pz and any(c["winds"] for c in comps)))
        env.cover("image without a component on the axis", anyc and not comps)
        env.cover("several on-axis components", len(comps) >= 2)
        env.cover("a component crosses the periodic z boundary", any(
            any(u != r for u, r in zip(c["unwrapped"], c["cells"])) for c in comps if not c["winds"]))
        if not comps:
            env.prove("no component touches the axis: empty emulsion", len(found) == 0)
            env.observe("n", len(found))
            return
        cvol = [sum((2 * env.pi * (F(2 * i + 1, 2) * dr) * dr * dz for i, _ in c["cells"]), env.const(0)) for c in comps]
        cz = [z0 + c["com"][1] * dz for c in comps]
        crad = [sphere_radius(env, v, 3) for v in cvol]
        adj = []
        for i, d in enumerate(found):
            env.prove(f"droplet lies on the axis [{i}]", env.And(env.eq(d.position[0], 0), env.eq(d.position[1], 0)))
            cand = []
            p = env.num(d.position[2])
            for k, c in enumerate(comps):
                conds = [env.eq(V(env, env.num(d.radius), 3), cvol[k]), env.le(0, d.radius)]
                if not c["winds"]:
                    if pz:
                        conds.append(env.Or(*[env.eq(p, cz[k] + j * Lz) for j in range(-2, 3)]))
                    else:
                        conds.append(env.eq(p, cz[k]))
                if env.is_true(env.And(*conds)):
                    cand.append(k)
            adj.append(cand)
            env.prove(f"droplet has the volume and centre of mass of an on-axis component [{i}]", len(cand) > 0)
        nmatch = max_matching(adj, len(found))
        env.prove("droplets correspond one-to-one to distinct on-axis components", nmatch == len(found))
        if nmatch != len(found) or any(not a for a in adj):
            return
        assign = {}

        def try_(i, vis):
            for j in adj[i]:
                if j in vis:
                    continue
                vis.add(j)
                if j not in assign or try_(assign[j], vis):
                    assign[j] = i
                    return True
            return False

        for i in range(len(found)):
            try_(i, set())
        per = [None, None, Lz if pz else None]
        for i, j in itertools.combinations(range(len(found)), 2):
            d2 = dist_sq(env, [0, 0, env.num(found[i].position[2])], [0, 0, env.num(found[j].position[2])], per, kmax=1)
            env.prove(f"returned droplets do not overlap [{i},{j}]",
                      env.Not(surf_lt(env, d2, env.num(found[i].radius) + env.num(found[j].radius), 0)))
        env.cover("an on-axis component is left out", len(assign) < len(comps))
        for k, c in enumerate(comps):
            if k in assign:
                continue
            if c["winds"]:
                continue
            alts = []
            for j, c2 in enumerate(comps):
                if j == k:
                    continue
                if c2["winds"]:
                    alts.append(True)
                    continue
                d2 = dist_sq(env, [cz[k]], [cz[j]], [per[2]], kmax=3)
                alts.append(env.And(cvol[j] >= cvol[k], surf_lt(env, d2, crad[k] + crad[j], 0)))
            env.prove(f"left-out component overlapped (as a sphere) a component at least as large [{k}]",
                      env.Or(*alts) if alts else False)
        env.observe("n", len(found))


HARNESSES = [C02Cartesian, C02Cylindrical]
