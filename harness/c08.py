"""C08 - saving and loading returns an equal object (against the HDF5 store model)"""
from fractions import Fraction as F
import contextlib
import itertools
import math
import os
import tempfile

from symx.runner import Harness

CLASSES = [
    ("SphericalDroplet", 1, 0), ("SphericalDroplet", 2, 0), ("SphericalDroplet", 3, 0),
    ("DiffuseDroplet", 1, 0), ("DiffuseDroplet", 2, 0), ("DiffuseDroplet", 3, 0),
    ("PerturbedDroplet2D", 2, 1), ("PerturbedDroplet2D", 2, 2), ("PerturbedDroplet2D", 2, 3),
    ("PerturbedDroplet3D", 3, 1), ("PerturbedDroplet3D", 3, 3),
    ("PerturbedDroplet3DAxisSym", 3, 1), ("PerturbedDroplet3DAxisSym", 3, 2),
]


@contextlib.contextmanager
def scratch(env, name):
    if env.mode == "float":
        with tempfile.TemporaryDirectory(prefix="symx_c08_") as d:
            yield os.path.join(d, name)
    else:
        yield f"/store/{name}"


def make_droplet(env, cls, dim, modes, tag, width="sym"):
    """droplet with symbolic parameters; width: 'sym' | 'unset'"""
    C = getattr(env.D, cls)
    if cls == "PerturbedDroplet3DAxisSym":
        p = [0, 0, env.real(f"{tag}p2", -5, 5)]
    else:
        p = [env.real(f"{tag}p{i}", -5, 5) for i in range(dim)]
    r = env.real(f"{tag}r", 0, 4)
    if cls == "SphericalDroplet":
        return C(p, r)
    w = None if width == "unset" else env.real(f"{tag}w", 0, 2)
    if cls == "DiffuseDroplet":
        return C(p, r, w)
    amps = [env.real(f"{tag}a{k}", -1, 1) for k in range(modes)]
    return C(p, r, w, amps)


def sample_droplet(w, rng, cls, dim, modes, tag):
    for i in range(dim):
        w[f"{tag}p{i}"] = F(rng.randint(-5000, 5000), 1000)
    w[f"{tag}r"] = F(rng.randint(0, 4000), 1000)
    w[f"{tag}w"] = F(rng.randint(0, 2000), 1000)
    for k in range(modes):
        w[f"{tag}a{k}"] = F(rng.randint(-1000, 1000), 1000)


def flat(env, d):
    """class name + all numbers of a droplet"""
    vals = []
    for n in d.data.dtype.names:
        v = d.data[n]
        try:
            vals.extend(list(env.np.asarray(v).reshape(-1)) if hasattr(v, "shape") and getattr(v, "shape", ()) != () else [v])
        except TypeError:
            vals.append(v)
    return type(d).__name__, list(d.data.dtype.names), vals


def isnan(x):
    return isinstance(x, float) and math.isnan(x)


def same_number(env, a, b):
    if isnan(a) or isnan(b):
        return isnan(a) and isnan(b)
    try:
        fa, fb = float(a), float(b)
        if math.isnan(fa) or math.isnan(fb):
            return math.isnan(fa) and math.isnan(fb)
    except (TypeError, ValueError):
        pass
    if env.mode == "float":
        return float(a) == float(b)           # bit-identical
    return bool(env.eq(a, b))


def same_droplet(env, a, b):
    ca, na, va = flat(env, a)
    cb, nb, vb = flat(env, b)
    return ca == cb and na == nb and len(va) == len(vb) and all(same_number(env, x, y) for x, y in zip(va, vb))


class C08Emulsion(Harness):
    name = "C08Emulsion"
    prop = "C08"
    bounds = ("Emulsion.to_file / from_file for every droplet class x dimension x mode count (13 layouts), 0-3 droplets, "
              "set and unset widths, all numbers symbolic; mixed classes / layouts must raise or round-trip")
    stubs = ["h5py = in-memory store model (deep copies, alphabetical keys, attributes returned as stored)",
             "numpy structured records = SYMX record model"]
    cost = 1
    exact_validation = False

    def configs(self, tier):
        out = []
        for cls, dim, modes in CLASSES:
            for n in (0, 1, 3) if tier != "thorough" else (0, 1, 2, 3):
                for width in ("sym", "unset"):
                    if width == "unset" and (cls == "SphericalDroplet" or n == 0):
                        continue
                    out.append(dict(cls=cls, dim=dim, modes=modes, n=n, width=width))
        out += [dict(mixed=m) for m in ("class", "modes", "dim")]
        return out

    def sample(self, cfg, rng):
        w = {"dummy": F(0)}
        if "mixed" in cfg:
            for k in range(2):
                sample_droplet(w, rng, "PerturbedDroplet2D", 3, 3, f"d{k}")
            return w
        for k in range(cfg["n"]):
            sample_droplet(w, rng, cfg["cls"], cfg["dim"], cfg["modes"], f"d{k}")
        if cfg["n"] == 0:
            sample_droplet(w, rng, cfg["cls"], cfg["dim"], cfg["modes"], "d9")
        return w

    def body(self, env, cfg):
        env.real("dummy", 0, 0)
        if "mixed" in cfg:
            if cfg["mixed"] == "class":
                ds = [make_droplet(env, "SphericalDroplet", 2, 0, "d0"), make_droplet(env, "DiffuseDroplet", 2, 0, "d1")]
            elif cfg["mixed"] == "modes":
                ds = [make_droplet(env, "PerturbedDroplet2D", 2, 3, "d0"), make_droplet(env, "PerturbedDroplet2D", 2, 1, "d1")]
            else:
                ds = [make_droplet(env, "SphericalDroplet", 2, 0, "d0"), make_droplet(env, "SphericalDroplet", 3, 0, "d1")]
            em = env.E.Emulsion(ds)
            with scratch(env, "mixed.hdf5") as path:
                try:
                    em.to_file(path)
                except Exception:
                    env.prove("writing an inconsistent emulsion raises", True)
                    return
                back = env.E.Emulsion.from_file(path)
            env.prove("an emulsion with inconsistent members was written: it must read back equal",
                      len(back) == len(em) and all(same_droplet(env, a, b) for a, b in zip(em, back)))
            return
        ds = [make_droplet(env, cfg["cls"], cfg["dim"], cfg["modes"], f"d{k}", cfg["width"]) for k in range(cfg["n"])]
        em = env.E.Emulsion(ds) if ds else env.E.Emulsion.empty(make_droplet(env, cfg["cls"], cfg["dim"], cfg["modes"], "d9"))
        with scratch(env, "em.hdf5") as path:
            em.to_file(path)
            back = env.E.Emulsion.from_file(path)
        env.prove("from_file(to_file(x)) == x by the class's own equality", back == em)
        env.prove("same number of droplets", len(back) == len(em))
        for i, (a, b) in enumerate(zip(em, back)):
            env.prove(f"same class, layout and identical parameters [{i}]", same_droplet(env, a, b))
        env.prove("original emulsion untouched", all(same_droplet(env, a, b) for a, b in zip(em, ds)))
        env.observe("n", len(back))


class C08TimeCourse(Harness):
    name = "C08TimeCourse"
    prop = "C08"
    bounds = ("EmulsionTimeCourse.to_file / from_file: 0-3 frames with any mix of empty / non-empty emulsions (1-2 droplets), "
              "one course of 12 frames (key order beyond 9), times symbolic (any order), 4 droplet layouts")
    stubs = C08Emulsion.stubs
    cost = 2
    exact_validation = False

    LAYOUTS = [("SphericalDroplet", 1, 0), ("DiffuseDroplet", 2, 0), ("PerturbedDroplet2D", 2, 2), ("PerturbedDroplet3D", 3, 3)]

    def configs(self, tier):
        out = []
        for li in range(len(self.LAYOUTS)):
            for nf in (0, 1, 2, 3):
                for counts in itertools.product((0, 1, 2), repeat=nf):
                    if li > 0 and (nf == 0 or (tier != "thorough" and sum(counts) > 3)):
                        continue
                    out.append(dict(layout=li, counts=list(counts)))
        out.append(dict(layout=1, counts=[1, 0] * 6))
        return out

    def sample(self, cfg, rng):
        cls, dim, modes = self.LAYOUTS[cfg["layout"]]
        w = {"dummy": F(0)}
        for f, n in enumerate(cfg["counts"]):
            w[f"t{f}"] = F(rng.randint(-5000, 5000), 1000)
            for k in range(n):
                sample_droplet(w, rng, cls, dim, modes, f"f{f}d{k}")
        return w

    def body(self, env, cfg):
        env.real("dummy", 0, 0)
        cls, dim, modes = self.LAYOUTS[cfg["layout"]]
        ems, times = [], []
        for f, n in enumerate(cfg["counts"]):
            times.append(env.real(f"t{f}", -10, 10))
            ems.append(env.E.Emulsion([make_droplet(env, cls, dim, modes, f"f{f}d{k}") for k in range(n)]))
        etc = env.E.EmulsionTimeCourse(ems, times) if ems else env.E.EmulsionTimeCourse()
        with scratch(env, "etc.hdf5") as path:
            etc.to_file(path)
            back = env.E.EmulsionTimeCourse.from_file(path, progress=False)
        env.prove("from_file(to_file(x)) == x by the class's own equality", back == etc)
        env.prove("same number of frames, times and emulsions paired", len(back) == len(ems)
                  and len(back.times) == len(back.emulsions) == len(ems))
        if len(back) != len(ems):
            return
        for f in range(len(ems)):
            env.prove(f"same time in the same order [{f}]", same_number(env, back.times[f], times[f]))
            env.prove(f"same droplets in frame [{f}]", len(back.emulsions[f]) == len(ems[f]) and all(
                same_droplet(env, a, b) for a, b in zip(back.emulsions[f], ems[f])))
        env.observe("n", len(back))


class C08Track(Harness):
    name = "C08Track"
    prop = "C08"
    bounds = ("DropletTrack and DropletTrackList to_file / from_file: tracks of 0-3 entries, lists of 0-3 tracks incl. empty "
              "tracks, 5 droplet layouts, unset widths, times symbolic; tracks whose members differ in class or mode count "
              "must raise or round-trip")
    stubs = C08Emulsion.stubs
    cost = 2
    exact_validation = False

    LAYOUTS = [("SphericalDroplet", 1, 0), ("DiffuseDroplet", 2, 0), ("PerturbedDroplet2D", 2, 2),
               ("PerturbedDroplet3D", 3, 3), ("PerturbedDroplet3DAxisSym", 3, 1)]

    def configs(self, tier):
        out = []
        for li in range(len(self.LAYOUTS)):
            for n in (0, 1, 2, 3):
                for width in ("sym", "unset"):
                    if width == "unset" and (li == 0 or n == 0):
                        continue
                    out.append(dict(kind="track", layout=li, n=n, width=width))
            for lens in ([], [0], [2], [1, 0, 2], [0, 0], [3, 1, 1]):
                if li > 1 and len(lens) < 3 and tier != "thorough":
                    continue
                out.append(dict(kind="list", layout=li, lens=lens))
        out += [dict(kind="mixed", mixed=m) for m in ("modes31", "modes13", "class_sd", "class_ds")]
        return out

    def sample(self, cfg, rng):
        w = {"dummy": F(0)}
        if cfg["kind"] == "mixed":
            for k in range(2):
                sample_droplet(w, rng, "PerturbedDroplet2D", 2, 3, f"d{k}")
                w[f"t{k}"] = F(k)
            return w
        cls, dim, modes = self.LAYOUTS[cfg["layout"]]
        if cfg["kind"] == "track":
            for k in range(cfg["n"]):
                sample_droplet(w, rng, cls, dim, modes, f"d{k}")
                w[f"t{k}"] = F(rng.randint(-5000, 5000), 1000)
        else:
            for j, n in enumerate(cfg["lens"]):
                for k in range(n):
                    sample_droplet(w, rng, cls, dim, modes, f"k{j}d{k}")
                    w[f"k{j}t{k}"] = F(rng.randint(-5000, 5000), 1000)
        return w

    def check_track(self, env, tag, back, drops, times):
        env.prove(f"{tag}: same length, times and droplets paired", len(back) == len(drops)
                  and len(back.times) == len(back.droplets) == len(drops))
        if len(back) != len(drops):
            return
        for i in range(len(drops)):
            env.prove(f"{tag}: same time [{i}]", same_number(env, back.times[i], times[i]))
            env.prove(f"{tag}: same class, layout and identical parameters [{i}]", same_droplet(env, back.droplets[i], drops[i]))

    def body(self, env, cfg):
        env.real("dummy", 0, 0)
        T = env.T
        if cfg["kind"] == "mixed":
            m = cfg["mixed"]
            if m == "modes31":
                ds = [make_droplet(env, "PerturbedDroplet2D", 2, 3, "d0"), make_droplet(env, "PerturbedDroplet2D", 2, 1, "d1")]
            elif m == "modes13":
                ds = [make_droplet(env, "PerturbedDroplet2D", 2, 1, "d0"), make_droplet(env, "PerturbedDroplet2D", 2, 3, "d1")]
            elif m == "class_sd":
                ds = [make_droplet(env, "SphericalDroplet", 2, 0, "d0"), make_droplet(env, "DiffuseDroplet", 2, 0, "d1")]
            else:
                ds = [make_droplet(env, "DiffuseDroplet", 2, 0, "d0"), make_droplet(env, "SphericalDroplet", 2, 0, "d1")]
            ts = [env.real("t0", -10, 10), env.real("t1", -10, 10)]
            tr = T.DropletTrack(ds, ts)
            with scratch(env, "mixed_track.hdf5") as path:
                try:
                    tr.to_file(path)
                except Exception:
                    env.prove("writing a track with inconsistent members raises", True)
                    return
                back = T.DropletTrack.from_file(path)
            env.tag("track_mixed_layout_written")
            env.prove("a track with members of different layouts was written: it must read back equal",
                      len(back) == 2 and all(same_droplet(env, a, b) for a, b in zip(back.droplets, ds)))
            return
        cls, dim, modes = self.LAYOUTS[cfg["layout"]]
        if cfg["kind"] == "track":
            ds = [make_droplet(env, cls, dim, modes, f"d{k}", cfg["width"]) for k in range(cfg["n"])]
            ts = [env.real(f"t{k}", -10, 10) for k in range(cfg["n"])]
            tr = T.DropletTrack(ds, ts)
            with scratch(env, "track.hdf5") as path:
                tr.to_file(path)
                back = T.DropletTrack.from_file(path)
            env.prove("from_file(to_file(x)) == x by the class's own equality", back == tr)
            self.check_track(env, "track", back, ds, ts)
            return
        tracks, spec = [], []
        for j, n in enumerate(cfg["lens"]):
            ds = [make_droplet(env, cls, dim, modes, f"k{j}d{k}") for k in range(n)]
            ts = [env.real(f"k{j}t{k}", -10, 10) for k in range(n)]
            tracks.append(T.DropletTrack(ds, ts))
            spec.append((ds, ts))
        tl = T.DropletTrackList(tracks)
        with scratch(env, "tracks.hdf5") as path:
            tl.to_file(path)
            back = T.DropletTrackList.from_file(path, progress=False)
        env.prove("from_file(to_file(x)) == x by the class's own equality", list(back) == list(tl))
        env.prove("same number of tracks", len(back) == len(tracks))
        if len(back) == len(tracks):
            for j, (ds, ts) in enumerate(spec):
                self.check_track(env, f"track {j}", back[j], ds, ts)


HARNESSES = [C08Emulsion, C08TimeCourse, C08Track]
