"""C11 - merging droplets conserves volume and centre of mass"""
from fractions import Fraction as F

from symx.runner import Harness
from harness.c12 import V


def mk(env, cls, p, r, w, diffuse):
    return cls(p, r, w) if diffuse else cls(p, r)


class C11Merge(Harness):
    name = "C11Merge"
    prop = "C11"
    bounds = ("SphericalDroplet/DiffuseDroplet, dims 1-3, 2 operands; positions, radii>=0 with V1+V2>0, widths>=0 "
              "symbolic; in-place, out-of-place and direct _merge_data (compiled source) paths")
    stubs = ["numba decorators = identity"]

    def configs(self, tier):
        return [dict(dim=d, cls=c) for d in (1, 2, 3) for c in ("SphericalDroplet", "DiffuseDroplet")]

    def sample(self, cfg, rng):
        w = dict(r1=F(rng.randint(0, 3000), 1000), r2=F(rng.randint(1, 3000), 1000),
                 w1=F(rng.randint(0, 2000), 1000), w2=F(rng.randint(0, 2000), 1000))
        for i in range(cfg["dim"]):
            w[f"a{i}"] = F(rng.randint(-5000, 5000), 1000)
            w[f"b{i}"] = F(rng.randint(-5000, 5000), 1000)
        return w

    def body(self, env, cfg):
        dim, diffuse = cfg["dim"], cfg["cls"] == "DiffuseDroplet"
        cls = getattr(env.D, cfg["cls"])
        a = [env.real(f"a{i}") for i in range(dim)]
        b = [env.real(f"b{i}") for i in range(dim)]
        r1, r2 = env.real("r1", 0), env.real("r2", 0)
        w1, w2 = env.real("w1", 0), env.real("w2", 0)
        V1, V2 = V(env, r1, dim), V(env, r2, dim)
        env.assume(V1 + V2 > 0, "total volume positive")
        d1, d2 = mk(env, cls, a, r1, w1, diffuse), mk(env, cls, b, r2, w2, diffuse)

        def check(tag, d):
            env.prove_le(f"{tag}: radius >= 0", 0, d.radius)
            env.prove_eq(f"{tag}: V(R) = V1+V2", V(env, env.num(d.radius), dim), V1 + V2)
            for i in range(dim):
                env.prove_eq(f"{tag}: centre of mass[{i}]", env.num(d.position[i]) * (V1 + V2), V1 * a[i] + V2 * b[i])
            if diffuse:
                env.prove_eq(f"{tag}: width = mean", d.interface_width, (w1 + w2) / 2)

        def unchanged(tag, d, p, r, w):
            env.prove_eq(f"{tag}: radius unchanged", d.radius, r)
            for i in range(dim):
                env.prove_eq(f"{tag}: position[{i}] unchanged", d.position[i], p[i])
            if diffuse:
                env.prove_eq(f"{tag}: width unchanged", d.interface_width, w)

        # out of place
        m = d1.merge(d2)
        env.prove("out-of-place: new object", not env.same_object(m, d1) and not env.same_object(m, d2))
        env.prove("out-of-place: class kept", type(m) is cls)
        check("out-of-place", m)
        unchanged("out-of-place: first operand", d1, a, r1, w1)
        unchanged("out-of-place: second operand", d2, b, r2, w2)
        # operand order
        m2 = d2.merge(d1)
        env.prove_eq("order: radius", m2.radius, m.radius)
        for i in range(dim):
            env.prove_eq(f"order: position[{i}]", m2.position[i], m.position[i])
        if diffuse:
            env.prove_eq("order: width", m2.interface_width, m.interface_width)
        # direct call of the (compiled) kernel with a separate output record
        res = d1.copy()
        cls._merge_data(d1.data, d2.data, out=res.data)
        check("kernel", res)
        # in place (out aliases the first operand)
        d1c = d1.copy()
        mi = d1c.merge(d2, inplace=True)
        env.prove("in-place: returns self", env.same_object(mi, d1c))
        check("in-place", mi)
        env.prove_eq("in-place = out-of-place: radius", mi.radius, m.radius)
        for i in range(dim):
            env.prove_eq(f"in-place = out-of-place: position[{i}]", mi.position[i], m.position[i])
        unchanged("in-place: second operand", d2, b, r2, w2)
        unchanged("in-place: source of the copy", d1, a, r1, w1)
        env.cover("first operand has zero radius", r1 == 0)
        env.cover("second operand has zero radius", r2 == 0)
        env.cover("first operand away from origin", a[0] != 0)
        env.observe("merged radius", m.radius)
        env.observe("merged position", [m.position[i] for i in range(dim)])


class C11Unset(Harness):
    name = "C11UnsetWidth"
    prop = "C11"
    bounds = "DiffuseDroplets with unset interface width, dims 1-3: merge succeeds, volume/centre as above, width stays unset"
    stubs = ["numba decorators = identity"]

    def configs(self, tier):
        return [dict(dim=d) for d in (1, 2, 3)]

    def sample(self, cfg, rng):
        w = dict(r1=F(rng.randint(0, 3000), 1000), r2=F(rng.randint(1, 3000), 1000))
        for i in range(cfg["dim"]):
            w[f"a{i}"] = F(rng.randint(-5000, 5000), 1000)
            w[f"b{i}"] = F(rng.randint(-5000, 5000), 1000)
        return w

    def body(self, env, cfg):
        dim = cfg["dim"]
        cls = env.D.DiffuseDroplet
        a = [env.real(f"a{i}") for i in range(dim)]
        b = [env.real(f"b{i}") for i in range(dim)]
        r1, r2 = env.real("r1", 0), env.real("r2", 0)
        V1, V2 = V(env, r1, dim), V(env, r2, dim)
        env.assume(V1 + V2 > 0, "total volume positive")
        m = cls(a, r1).merge(cls(b, r2))
        env.prove("width stays unset", m.interface_width is None)
        env.prove_eq("V(R) = V1+V2", V(env, env.num(m.radius), dim), V1 + V2)
        for i in range(dim):
            env.prove_eq(f"centre of mass[{i}]", env.num(m.position[i]) * (V1 + V2), V1 * a[i] + V2 * b[i])


class C11Three(Harness):
    name = "C11Three"
    prop = "C11"
    bounds = "three operands, dims 1-3, both groupings ((a+b)+c, a+(b+c)) and in-place folding: total volume and centre of mass"
    stubs = ["numba decorators = identity"]
    cost = 3

    def configs(self, tier):
        return [dict(dim=d, cls=c) for d in (1, 2, 3) for c in ("SphericalDroplet", "DiffuseDroplet")]

    def sample(self, cfg, rng):
        w = {}
        for k in "abc":
            w[f"r{k}"] = F(rng.randint(1, 3000), 1000)
            for i in range(cfg["dim"]):
                w[f"{k}{i}"] = F(rng.randint(-5000, 5000), 1000)
        return w

    def body(self, env, cfg):
        dim, diffuse = cfg["dim"], cfg["cls"] == "DiffuseDroplet"
        cls = getattr(env.D, cfg["cls"])
        P, R, Vs, ds = {}, {}, {}, {}
        for k in "abc":
            P[k] = [env.real(f"{k}{i}") for i in range(dim)]
            R[k] = env.real(f"r{k}", 0, strict_lo=True)
            Vs[k] = V(env, R[k], dim)
            ds[k] = mk(env, cls, P[k], R[k], env.const(F(1, 2)), diffuse)
        tot = Vs["a"] + Vs["b"] + Vs["c"]
        ab = ds["a"].merge(ds["b"])
        bc = ds["b"].merge(ds["c"])

        def pair_ok(tag, m, x, y):
            env.prove_eq(f"{tag}: volume", V(env, env.num(m.radius), dim), Vs[x] + Vs[y])
            for i in range(dim):
                env.prove_eq(f"{tag}: centre of mass[{i}]", env.num(m.position[i]) * (Vs[x] + Vs[y]),
                             Vs[x] * P[x][i] + Vs[y] * P[y][i])

        env.prove("results of different merges are different objects with their own data",
                  not env.same_object(ab, bc) and not env.same_object(ab.data, bc.data))
        pair_ok("a+b still intact after the unrelated merge b+c", ab, "a", "b")
        pair_ok("b+c", bc, "b", "c")
        left = ab.merge(ds["c"])
        right = ds["a"].merge(bc)
        pair_ok("operand a+b not modified by (a+b)+c", ab, "a", "b")
        pair_ok("operand b+c not modified by a+(b+c)", bc, "b", "c")
        fold = ds["a"].copy()
        fold.merge(ds["b"], inplace=True)
        fold.merge(ds["c"], inplace=True)
        for tag, m in (("(a+b)+c", left), ("a+(b+c)", right), ("in-place fold", fold)):
            env.prove_eq(f"{tag}: total volume", V(env, env.num(m.radius), dim), tot)
            for i in range(dim):
                env.prove_eq(f"{tag}: centre of mass[{i}]", env.num(m.position[i]) * tot,
                             Vs["a"] * P["a"][i] + Vs["b"] * P["b"][i] + Vs["c"] * P["c"][i])
        env.observe("radius", left.radius)


class C11Four(Harness):
    name = "C11Four"
    prop = "C11"
    bounds = ("four operands, dims 1-2 (thorough: 3): balanced grouping (a+b)+(c+d), left fold and in-place fold conserve "
              "total volume and centre of mass; intermediate results stay intact")
    stubs = ["numba decorators = identity"]
    cost = 4

    def configs(self, tier):
        return [dict(dim=d, cls=c) for d in ((1, 2, 3) if tier == "thorough" else (1, 2))
                for c in ("SphericalDroplet", "DiffuseDroplet")]

    def sample(self, cfg, rng):
        w = {}
        for k in "abcd":
            w[f"r{k}"] = F(rng.randint(1, 3000), 1000)
            for i in range(cfg["dim"]):
                w[f"{k}{i}"] = F(rng.randint(-5000, 5000), 1000)
        return w

    def body(self, env, cfg):
        dim, diffuse = cfg["dim"], cfg["cls"] == "DiffuseDroplet"
        cls = getattr(env.D, cfg["cls"])
        P, R, Vs, ds = {}, {}, {}, {}
        for k in "abcd":
            P[k] = [env.real(f"{k}{i}") for i in range(dim)]
            R[k] = env.real(f"r{k}", 0, strict_lo=True)
            Vs[k] = V(env, R[k], dim)
            ds[k] = mk(env, cls, P[k], R[k], env.const(F(1, 2)), diffuse)
        tot = sum((Vs[k] for k in "bcd"), Vs["a"])
        com = [sum((Vs[k] * P[k][i] for k in "bcd"), Vs["a"] * P["a"][i]) for i in range(dim)]
        ab, cd = ds["a"].merge(ds["b"]), ds["c"].merge(ds["d"])
        balanced = ab.merge(cd)
        left = ds["a"].merge(ds["b"]).merge(ds["c"]).merge(ds["d"])
        fold = ds["a"].copy()
        for k in "bcd":
            fold.merge(ds[k], inplace=True)
        for tag, m in (("(a+b)+(c+d)", balanced), ("((a+b)+c)+d", left), ("in-place fold", fold)):
            env.prove_eq(f"{tag}: total volume", V(env, env.num(m.radius), dim), tot)
            for i in range(dim):
                env.prove_eq(f"{tag}: centre of mass[{i}]", env.num(m.position[i]) * tot, com[i])
        env.prove_eq("a+b intact after being merged with c+d", V(env, env.num(ab.radius), dim), Vs["a"] + Vs["b"])
        env.prove_eq("c+d intact after being merged into a+b", V(env, env.num(cd.radius), dim), Vs["c"] + Vs["d"])
        env.observe("radius", balanced.radius)


HARNESSES = [C11Merge, C11Unset, C11Three, C11Four]
