"""C04 - refinement never worsens the fit and respects bounds, symmetry and the box (under the optimiser contract)"""
from fractions import Fraction as F
import math

from symx.runner import Harness
from harness import gridfam
from harness.c19 import GRIDS as G19

GRIDS = dict(G19)
GRIDS["c1n"] = dict(kind="cart", shape=[5], per="n")
GRIDS["cylq"] = dict(kind="cyl", shape=[2, 3], R="1", z0="1", z1="4", pz=True)

CLASSES = ["SphericalDroplet", "DiffuseDroplet", "PerturbedDroplet2D", "PerturbedDroplet3D", "PerturbedDroplet3DAxisSym"]


def cells_of(sp):
    import itertools
    if sp["kind"] == "cart":
        return list(itertools.product(*[range(n) for n in sp["shape"]]))
    if sp["kind"] == "cyl":
        return list(itertools.product(*[range(n) for n in sp["shape"]]))
    return [(i,) for i in range(sp["n"])]


def grid_dim(sp):
    return len(sp["shape"]) if sp["kind"] == "cart" else sp["dim"]


def candidate(env, sp, cls, symbolic):
    """a candidate of class `cls` valid on the grid; (droplet, position list, radius, width, amplitudes)"""
    dim = grid_dim(sp)
    C = getattr(env.D, cls)
    if sp["kind"] == "cart":
        pos = []
        for a, (lo, hi) in enumerate(sp["bounds"]):
            pos.append(env.real(f"p{a}", lo, hi) if symbolic else lo + (hi - lo) * (F(15, 16) if a == 0 else F(7, 16)))
    elif sp["kind"] == "cyl":
        pos = [0, 0, env.real("p2", sp["z0"], sp["z1"]) if symbolic else sp["z0"] + (sp["z1"] - sp["z0"]) * F(15, 16)]
    else:
        pos = [0] * dim
    r = env.real("r", F(1, 4), 2) if symbolic else env.const(F(3, 4))
    w = env.const(F(1, 2))
    if cls == "SphericalDroplet":
        return C(pos, r), pos, r, None, []
    if cls == "DiffuseDroplet":
        return C(pos, r, w), pos, r, w, []
    amps = [env.const(F(1, 10)), env.const(0)]
    return C(pos, r, w, amps), pos, r, w, amps


class C04Refine(Harness):
    name = "C04Refine"
    prop = "C04"
    bounds = ("refine_droplet on fields of symbolic values: Cartesian 1D 5 cells (n/p; candidate symbolic), 2D 3x3 pn, 3D "
              "2x2x2, polar 4, spherical 4, cylindrical 2x3 (periodic z, z-range off the origin); candidate of every "
              "compatible class; (vmin, vmax) given symbolic / determined from the image; adjust_values off/on; result of the "
              "optimiser an arbitrary point satisfying the contract")
    stubs = ["scipy.optimize.least_squares = contract stub: ValueError for lb>=ub / start outside the bounds / non-finite "
             "residual; otherwise any x* with lb <= x* <= ub (cut: unbounded parameters within 1/2 of the start); the clause "
             "cost(x*) <= cost(x0) is the contract's, so 'never worsens the fit' holds by construction for the optimiser's result: "
             "the check decides that the returned droplet *is* that result; the residual closure is executed symbolically at x0 and x*", "py-pde grid / field model",
             "tanh / trig / harmonics as symbols"]
    cost = 4
    mod_mode = "fork"
    exact_validation = False

    def configs(self, tier):
        out = []
        th = tier == "thorough"
        #        grid    class                        symbolic candidate, levels, adjust
        table = [("c1n", "SphericalDroplet", True, ("given",), (False, True)),
                 ("c1n", "DiffuseDroplet", True, ("given",), (False, True)),
                 ("c1", "DiffuseDroplet", False, ("given",), (False, True)),
                 ("c2", "DiffuseDroplet", False, ("given",), (False,)),
                 ("polar", "SphericalDroplet", False, ("given", "auto"), (False, True)),
                 ("polar", "PerturbedDroplet2D", False, ("given",), (False, True)),
                 ("sph", "DiffuseDroplet", False, ("given", "auto"), (False, True)),
                 ("cylq", "DiffuseDroplet", False, ("given",), (False, True))]
        if th:
            table += [("c1", "DiffuseDroplet", True, ("given", "auto"), (False, True)),
                      ("c1n", "DiffuseDroplet", True, ("auto",), (False, True)),
                      ("c2", "DiffuseDroplet", False, ("given", "auto"), (True,)),
                      ("c2", "PerturbedDroplet2D", False, ("given",), (False, True)),
                      ("c3", "DiffuseDroplet", False, ("given",), (False, True)),
                      ("c3", "PerturbedDroplet3D", False, ("given",), (False,)),
                      ("cyl", "SphericalDroplet", False, ("given", "auto"), (False, True)),
                      ("cylq", "PerturbedDroplet3DAxisSym", False, ("given",), (False, True))]
        for g, cls, sym, levels, adjusts in table:
            for lv in levels:
                for adj in adjusts:
                    out.append(dict(GRIDS[g], g=g, cls=cls, sym=sym, levels=lv, adjust=adj, _cost=3 if sym else 1))
        # evaluation protocol of the optimiser (further evaluations after the returned iterate, unconverged runs; the
        # real runs use max_nfev=2) and the loss it minimises
        for g, cls, sym in [("c1n", "DiffuseDroplet", True), ("polar", "SphericalDroplet", False), ("sph", "DiffuseDroplet", False),
                            ("c2", "DiffuseDroplet", False)] + ([("cylq", "DiffuseDroplet", False)] if th else []):
            for adj in (False, True):
                out.append(dict(GRIDS[g], g=g, cls=cls, sym=sym, levels="given", adjust=adj, proto=True, _cost=6 if sym else 2))
        return out

    def install(self, env, cfg):
        if env.mode != "float":
            from symx.models import optimize
            optimize.reset(cost=False, window=F(1, 2), protocol=bool(cfg.get("proto")))

    def sample(self, cfg, rng):
        sp = gridfam.spec_of(cfg)
        w = dict(vmin=F(rng.randint(-500, 300), 1000), vmax=F(rng.randint(700, 1500), 1000), r=F(rng.randint(300, 1500), 1000))
        if sp["kind"] == "cart":
            for a, (lo, hi) in enumerate(sp["bounds"]):
                w[f"p{a}"] = lo + (hi - lo) * F(rng.randint(100, 900), 1000)
        elif sp["kind"] == "cyl":
            w["p2"] = sp["z0"] + (sp["z1"] - sp["z0"]) * F(rng.randint(100, 900), 1000)
        for k, idx in enumerate(cells_of(sp)):
            w["v" + "_".join(map(str, idx))] = F(rng.randint(0, 1000), 1000)
        return w

    def body(self, env, cfg):
        grid, sp = gridfam.make(env, cfg)
        dim = grid_dim(sp)
        cls = cfg["cls"]
        cand, pos, r, w, amps = candidate(env, sp, cls, cfg["sym"])
        shape = sp["shape"] if sp["kind"] in ("cart", "cyl") else [sp["n"]]
        data = env.np.empty(shape, dtype=object if env.mode != "float" else float)
        vals = {}
        for idx in cells_of(sp):
            vals[idx] = env.real("v" + "_".join(map(str, idx)), -1, 2)
            data[idx] = vals[idx]
        field = env.field(grid, data)
        vmin, vmax = env.real("vmin", -2, 2), env.real("vmax", -2, 2)
        kw = dict(adjust_values=cfg["adjust"])
        if cfg["levels"] == "given":
            env.assume(vmin < vmax, "outside level below inside level")
            kw.update(vmin=vmin, vmax=vmax)
        else:
            kw.update(vmin=None, vmax=None)
        snapshot = [(idx, data[idx]) for idx in cells_of(sp)]
        if env.mode == "float" and cfg["adjust"] and cfg["levels"] == "auto":
            # classifier of the known finding: image constant over the fit region
            from scipy import ndimage as _ndi
            c2 = cand.copy()
            m = c2._get_phase_field(grid, dtype=bool)
            wd = getattr(c2, "interface_width", None)
            wd = grid.typical_discretization if wd is None else wd
            m = _ndi.binary_dilation(m, iterations=1 + int(2 * wd))
            region = env.np.asarray(data)[m]
            env.tag("adjust_values_constant_fit_region", region.size == 0 or float(region.max()) == float(region.min()))
        cand_vals = ([env.num(x) for x in cand.position], env.num(cand.radius))
        cand_copy = cand.copy()
        snapshot_vals = {idx: data[idx] for idx in cells_of(sp)}
        if cfg.get("proto"):
            kw["least_squares_params"] = dict(max_nfev=2)
        spy = []
        if env.mode == "float":
            import scipy.optimize as _so
            from harness.c19 import patched
            real_lsq = _so.least_squares

            def spying(fun, x0, *a, **k):
                f0 = env.np.array(fun(env.np.array(x0, dtype=float)), dtype=float)
                r = real_lsq(fun, x0, *a, **k)
                spy.append(dict(x0=list(env.np.atleast_1d(x0)), x=list(r.x), kwargs=dict(k), success=bool(r.success), f0=f0))
                return r

            cand0 = cand.copy()
            with patched(_so, "least_squares", spying):
                res = env.IA.refine_droplet(field, cand, **kw)
        else:
            res = env.IA.refine_droplet(field, cand, **kw)
        # ---- class, ranges
        want = cls if cls != "SphericalDroplet" else "DiffuseDroplet"
        env.prove("result has the candidate's class (at least a diffuse interface)", type(res).__name__ == want)
        env.prove_le("radius >= 0", 0, res.radius)
        env.prove("interface width set and >= 0", res.interface_width is not None and bool(env.le(0, res.interface_width)))
        for k, a in enumerate(getattr(res, "amplitudes", [])):
            env.prove(f"amplitude within [-1, 1] [{k}]", env.And(env.le(-1, a), env.le(a, 1)))
        if cls.startswith("Perturbed"):
            env.prove("same number of amplitudes", len(res.amplitudes) == len(amps))
        env.prove("dimension kept", res.dim == dim)
        # ---- coordinates fixed by the symmetry of the grid
        fixed = {"cart": [], "polar": [0, 1], "spherical": [0, 1, 2], "cyl": [0, 1]}[sp["kind"]]
        for a in fixed:
            env.prove_eq(f"coordinate fixed by the grid's symmetry is untouched [{a}]", res.position[a], cand_vals[0][a])
        # ---- position wrapped into the box along periodic axes
        if sp["kind"] == "cart":
            for a, ((lo, hi), per) in enumerate(zip(sp["bounds"], sp["periodic"])):
                if per:
                    p = env.num(res.position[a])
                    env.prove(f"position wrapped into the box along the periodic axis [{a}]", env.And(env.le(lo, p), p < hi))
        elif sp["kind"] == "cyl" and sp["pz"]:
            p = env.num(res.position[2])
            env.prove("z wrapped into the box (periodic z)", env.And(env.le(sp["z0"], p), p < sp["z1"]))
        # ---- image untouched
        env.prove("the image is not modified", all(env.same_object(data[idx], v) or bool(env.eq(data[idx], v))
                                                   for idx, v in snapshot) and env.same_object(field.data, data) or all(
            bool(env.eq(field.data[idx], v)) for idx, v in snapshot))
        # ---- optimiser interface: what was handed to least_squares and what was done with its result
        # (symbolic side: the contract stub's record; float side: a spy around the real scipy function)
        if True:
            if env.mode != "float":
                from symx.models import optimize
                calls = optimize.CONFIG["calls"]
            else:
                calls = spy
            env.prove("least_squares called exactly once", len(calls) == 1)
            if len(calls) == 1:
                c = calls[0]
                nfree = len(c["x0"])
                if env.mode != "float":
                    env.cover("optimiser result differs from the start", env.Or(*[c["x"][i] != c["x0"][i] for i in range(nfree)]))
                    if cfg.get("proto"):
                        env.cover("unconverged optimiser run", not c["success"])
                        env.cover("last evaluated point differs from the returned iterate",
                                  env.Or(*[c["x"][i] != c["x_last"][i] for i in range(nfree)]))
                    # scipy guarantees a non-increasing value of the loss it minimises; that is the squared deviation
                    # over the fitted region only for the (default) linear loss
                    env.prove("refinement minimises the squared deviation over the fitted region, which does not increase",
                              c["kwargs"].get("loss", "linear") == "linear")
                elif cfg["levels"] == "given" and not cfg["adjust"]:
                    from scipy import ndimage as _ndi
                    c0 = cand0 if hasattr(cand0, "interface_width") else env.D.DiffuseDroplet.from_droplet(cand0)
                    if c0.interface_width is None:
                        c0.interface_width = grid.typical_discretization
                    m = _ndi.binary_dilation(c0._get_phase_field(grid, dtype=bool), iterations=1 + int(2 * c0.interface_width))
                    img0 = env.np.asarray(data, dtype=float)[m]

                    def dev(d):
                        return float(env.np.sum((vmin + (vmax - vmin) * d._get_phase_field(grid)[m] - img0) ** 2))

                    d0, d1 = dev(c0), dev(res)
                    env._rec("refinement minimises the squared deviation over the fitted region, which does not increase",
                             d1 <= d0 * (1 + 1e-7) + 1e-10, f"{d1!r} > {d0!r}")
                if cfg["levels"] == "given" and not cfg["adjust"] and not cfg["sym"]:
                    # the closure handed to the optimiser is the deviation itself: its sum of squares at the start is the
                    # squared deviation of the candidate over the fitted region (the harness renders the candidate again)
                    from scipy import ndimage as _ndi2
                    cc = cand_copy if hasattr(cand_copy, "interface_width") else env.D.DiffuseDroplet.from_droplet(cand_copy)
                    if cc.interface_width is None:
                        cc.interface_width = grid.typical_discretization
                    mk = _ndi2.binary_dilation(env.np.asarray(cc._get_phase_field(grid, dtype=bool), dtype=bool),
                                               iterations=1 + int(2 * cc.interface_width))
                    prof = cc._get_phase_field(grid)
                    own = env.const(0)
                    for idx in cells_of(sp):
                        if mk[idx]:
                            dlt = vmin + (vmax - vmin) * env.num(prof[idx]) - env.num(snapshot_vals[idx])
                            own = own + dlt * dlt
                    got = env.const(0)
                    for v in env.np.asarray(c["f0"]).reshape(-1):
                        got = got + env.num(v) * env.num(v)
                    env.prove_eq("sum of squares of the residual handed to the optimiser = squared deviation of the candidate over "
                                 "the fitted region", got, own)
                if env.mode == "float" and cfg.get("proto"):
                    # confirmation scenario for the loss obligation, on the real package: two close droplets with intensities
                    # 0..50 on 24 cells; the candidate is first brought to the least-squares optimum with the loss given
                    # explicitly (twice, so that the fitted region is that of the optimum), then refined with the defaults
                    import pde as _pde
                    from scipy import ndimage as _ndi3
                    g24 = _pde.CartesianGrid([(0, 24)], [24])
                    xs = g24.cell_coords[:, 0]
                    for sep in (5.5, 6.5, 7.5):
                        pr = lambda cc_, rr_: 0.5 + 0.5 * env.np.tanh((rr_ - abs(xs - cc_)) / 1.0)
                        img24 = _pde.ScalarField(g24, 50 * env.np.clip(pr(9.0, 3.0) + pr(9.0 + sep, 2.0), 0, 1))
                        best = env.D.DiffuseDroplet([9.3], 2.7, 1.0)
                        for _ in range(2):
                            best = env.IA.refine_droplet(img24, best.copy(), vmin=0, vmax=50, least_squares_params={"loss": "linear"})
                        again = env.IA.refine_droplet(img24, best.copy(), vmin=0, vmax=50)
                        m24 = _ndi3.binary_dilation(best._get_phase_field(g24, dtype=bool), iterations=1 + int(2 * best.interface_width))
                        dv = lambda d_: float(env.np.sum((50 * d_._get_phase_field(g24)[m24] - img24.data[m24]) ** 2))
                        env._rec("refinement minimises the squared deviation over the fitted region, which does not increase",
                                 dv(again) <= dv(best) * (1 + 1e-7) + 1e-9, f"two-droplet scenario, separation {sep}: {dv(again)!r} > {dv(best)!r}")
                # the returned droplet carries exactly the optimiser's result in its free parameters
                flat = [env.num(x) for x in res.position] + [env.num(res.radius), env.num(res.interface_width)] + \
                    [env.num(a) for a in getattr(res, "amplitudes", [])]
                free = [i for i in range(len(flat)) if i not in fixed]
                nres = nfree - (2 if cfg["adjust"] else 0)
                env.prove("number of fitted parameters = free droplet parameters (+2 levels)", nres == len(free))
                if nres == len(free):
                    for kk, i in enumerate(free):
                        x = c["x"][kk]
                        per = None
                        if sp["kind"] == "cart" and i < dim and sp["periodic"][i]:
                            per = sp["bounds"][i][1] - sp["bounds"][i][0]
                        elif sp["kind"] == "cyl" and i == 2 and sp["pz"]:
                            per = sp["z1"] - sp["z0"]
                        if per is None:
                            env.prove_eq(f"returned parameter = optimiser result [{i}]", flat[i], x)
                        elif env.mode == "float":
                            # the real optimiser may leave the box by any number of periods
                            j = round((flat[i] - float(x)) / float(per))
                            env.prove_eq(f"returned position = optimiser result modulo the period [{i}]", flat[i], float(x) + j * float(per))
                            if sp["kind"] == "cyl" and j != 0:
                                env.tag("cyl-periodic-z-result-wrapped")
                        else:
                            env.prove(f"returned position = optimiser result modulo the period [{i}]",
                                      env.Or(*[env.eq(flat[i], x + j * per) for j in range(-2, 3)]))
        env.observe("r", res.radius)


class C04SelfImage(Harness):
    name = "C04SelfImage"
    prop = "C04"
    bounds = ("refine_droplet on the image rendered from the candidate itself (get_phase_field with symbolic levels vmin < vmax; "
              "candidate position and radius symbolic on Cartesian 1D 5 cells (n / p), width symbolic on polar 4 / spherical 4); "
              "diffuse candidates, 2D perturbed candidate on the polar grid; levels supplied / fitted: the "
              "residual handed to the optimiser at the start is exactly zero in every cell of the fitted region (the candidate "
              "is a global minimiser of the fit problem); float replays: the real optimiser returns the candidate unchanged "
              "up to 1e-6")
    stubs = C04Refine.stubs
    cost = 2
    mod_mode = "fork"
    exact_validation = False

    def configs(self, tier):
        out = []
        for g, cls, sym in [("c1n", "DiffuseDroplet", True), ("polar", "DiffuseDroplet", False),
                            ("polar", "PerturbedDroplet2D", False), ("sph", "DiffuseDroplet", False)] + \
                ([("c1", "DiffuseDroplet", True)] if tier == "thorough" else []):
            for adj in (False, True):
                out.append(dict(GRIDS[g], g=g, cls=cls, sym=sym, adjust=adj, _cost=3 if sym else 1))
        return out

    def install(self, env, cfg):
        if env.mode != "float":
            from symx.models import optimize
            optimize.reset(cost=False, window=F(1, 2))

    def sample(self, cfg, rng):
        sp = gridfam.spec_of(cfg)
        w = dict(vmin=F(rng.randint(-1500, 300), 1000), vmax=F(rng.randint(700, 1900), 1000), r=F(rng.randint(500, 1500), 1000),
                 w=F(rng.randint(400, 1200), 1000))
        if sp["kind"] == "cart":
            for a, (lo, hi) in enumerate(sp["bounds"]):
                w[f"p{a}"] = lo + (hi - lo) * F(rng.randint(300, 700), 1000)
        return w

    def body(self, env, cfg):
        grid, sp = gridfam.make(env, cfg)
        cls = cfg["cls"]
        cand, pos, r, w0, amps = candidate(env, sp, cls, cfg["sym"])
        # symbolic candidate position / radius (1D): concrete width, so that the dilation count does not fork as well
        wd = env.real("w", F(1, 4), F(3, 2)) if not cfg["sym"] else (env.const(F(3, 4)) if env.mode != "float" else 0.75)
        cand.interface_width = wd
        vmin, vmax = env.real("vmin", -2, 2), env.real("vmax", -2, 2)
        env.assume(vmin < vmax, "outside level below inside level")
        image = cand.get_phase_field(grid, vmin=vmin, vmax=vmax)
        before = [env.num(x) for x in cand.position] + [env.num(cand.radius), env.num(cand.interface_width)] + \
            [env.num(a) for a in getattr(cand, "amplitudes", [])]
        res = env.IA.refine_droplet(image, cand.copy(), vmin=vmin, vmax=vmax, adjust_values=cfg["adjust"])
        if env.mode != "float":
            from symx.models import optimize
            calls = optimize.CONFIG["calls"]
            env.prove("least_squares called exactly once", len(calls) == 1)
            if len(calls) == 1:
                f0 = calls[0]["f0"].reshape(-1)
                env.cover("fitted region is not empty", len(f0) > 0)
                for i, v in enumerate(f0):
                    env.prove_eq(f"image rendered from the candidate: residual at the start is zero [{i}]", v, 0)
        else:
            after = [env.num(x) for x in res.position] + [env.num(res.radius), env.num(res.interface_width)] + \
                [env.num(a) for a in getattr(res, "amplitudes", [])]
            for i, (a, b) in enumerate(zip(before, after)):
                env._rec(f"image rendered from the candidate: returned unchanged up to solver tolerance [{i}]",
                         abs(a - b) <= 1e-6 * (1 + abs(a)), f"{a!r} -> {b!r}")
        env.observe("r", res.radius)


HARNESSES = [C04Refine, C04SelfImage]
