"""property id -> harness classes"""
import importlib

MODULES = {
    "C01": "harness.c01", "C04": "harness.c04", "C02": "harness.c02", "C03": "harness.c03", "C08": "harness.c08", "C09": "harness.c09", "C13": "harness.c13", "C14": "harness.c14", "C15": "harness.c15", "C16": "harness.c16", "C17": "harness.c17", "C18": "harness.c18", "C19": "harness.c19", "C20": "harness.c20",
    "C06": "harness.c06", "C07": "harness.c07", "C10": "harness.c10", "C11": "harness.c11", "C12": "harness.c12",
}


def harnesses(prop):
    m = importlib.import_module(MODULES[prop])
    return [(MODULES[prop], h.__name__) for h in m.HARNESSES]


def registry():
    out = {}
    for p, mn in MODULES.items():
        try:
            m = importlib.import_module(mn)
        except ImportError:
            continue
        out[p] = {h.__name__: (mn, h.__name__) for h in m.HARNESSES}
    return out
