"""C19 - the requested droplet model determines the class and shape of every result"""
from fractions import Fraction as F
import contextlib

from symx.runner import Harness
from harness import gridfam

GRIDS = {
    "c1": dict(kind="cart", shape=[5], per="p"),
    "c2": dict(kind="cart", shape=[3, 3], per="pn"),
    "c3": dict(kind="cart", shape=[2, 2, 2], per="npn", sp="b", org="0"),
    "polar": dict(kind="polar", R="5/2", n=4),
    "sph": dict(kind="spherical", R="2", n=4),
    "cyl": dict(kind="cyl", shape=[2, 3], R="1", z0="-1", z1="2", pz=False),
    "cylp": dict(kind="cyl", shape=[2, 3], R="1", z0="-1", z1="2", pz=True),
}


@contextlib.contextmanager
def patched(mod, name, value):
    old = getattr(mod, name)
    setattr(mod, name, value)
    try:
        yield
    finally:
        setattr(mod, name, old)


def reset_optimizer(env, cost, window=None, protocol=False):
    if env.mode != "float":
        from symx.models import optimize
        optimize.reset(cost=cost, window=window, protocol=protocol)


def candidate_positions(env, sp, k, narrow=False):
    """a position that a locator can return on this grid (symbolic where free; narrow: within one cell)"""
    if sp["kind"] == "cart":
        if narrow:
            return [env.real(f"p{k}_{a}", lo + 2 * sp["spacing"][a], lo + 3 * sp["spacing"][a])
                    for a, (lo, hi) in enumerate(sp["bounds"])]
        return [env.real(f"p{k}_{a}", lo, hi) for a, (lo, hi) in enumerate(sp["bounds"])]
    if sp["kind"] in ("polar", "spherical"):
        return [0] * sp["dim"]
    return [0, 0, env.real(f"p{k}_2", sp["z0"], sp["z1"])]


def conc_position(sp, k):
    if sp["kind"] == "cart":
        return [lo + (hi - lo) * F(3 + 2 * k, 8) for (lo, hi) in sp["bounds"]]
    if sp["kind"] in ("polar", "spherical"):
        return [0] * sp["dim"]
    return [0, 0, sp["z0"] + (sp["z1"] - sp["z0"]) * F(3 + 2 * k, 8)]


def sample_positions(sp, rng, w, k):
    if sp["kind"] == "cart":
        for a, (lo, hi) in enumerate(sp["bounds"]):
            w[f"p{k}_{a}"] = lo + sp["spacing"][a] * (2 + F(rng.randint(1, 999), 1000))
    elif sp["kind"] == "cyl":
        w[f"p{k}_2"] = sp["z0"] + (sp["z1"] - sp["z0"]) * F(rng.randint(1, 999), 1000)


class C19Class(Harness):
    name = "C19Class"
    prop = "C19"
    bounds = ("locate_droplets on 7 grid families (Cartesian 1D/2D/3D, polar, spherical, cylindrical both periodic_z) x "
              "modes in {0,1,2,3} x interface width {unset, 0, symbolic>0} x refine {off, on}; plus refinement of a candidate of "
              "symbolic radius in [1/4, 8] (up to covering every cell) on the 1D, polar and spherical grids; the binary-image locator is "
              "replaced by 2 candidate spherical droplets with symbolic parameters (and by none); field values symbolic")
    stubs = ["locate_droplets_in_mask replaced by symbolic candidates (its own behaviour is C01/C02)",
             "scipy.optimize.least_squares contract stub without the cost clause (arbitrary result within the bounds; "
             "cut: unbounded parameters within 1/2 of the start); with refinement one candidate, concrete except on the 1D grid",
             "py-pde grid / field model"]
    cost = 2
    mod_mode = "fork"
    exact_validation = False

    def configs(self, tier):
        out = []
        for g in GRIDS:
            for modes in (0, 1, 2, 3):
                for width in ("none", "zero", "sym"):
                    for refine in (False, True):
                        if width == "zero" and (refine or modes not in (0, 2)):
                            continue
                        if refine and tier != "thorough" and (modes == 3 or (g in ("c3", "c2") and modes >= 1)):
                            continue
                        out.append(dict(GRIDS[g], g=g, modes=modes, width=width, refine=refine,
                                        _cost=(8 if refine else 1) * (1 + modes)))
        # refinement with an optimiser that may stop unconverged (stub: solver-chosen success flag; real runs: max_nfev=1)
        for g in ("c1", "polar", "sph"):
            for modes in ((0, 1) if g != "c1" else (0,)):
                out.append(dict(GRIDS[g], g=g, modes=modes, width="none", refine=True, proto=True, _cost=12))
        # refinement of a candidate of any size, up to one that covers every cell of the grid
        for g in ("c1", "polar", "sph"):
            for width in ("none", "sym"):
                out.append(dict(GRIDS[g], g=g, modes=0, width=width, refine=True, big=True, _cost=10))
        return out

    def install(self, env, cfg):
        reset_optimizer(env, cost=False, window=F(1, 2), protocol=bool(cfg.get("proto")))

    def sample(self, cfg, rng):
        sp = gridfam.spec_of(cfg)
        w = dict(w=F(rng.randint(1, 1500), 1000), dummy=F(0))
        for k in range(2):
            sample_positions(sp, rng, w, k)
            w[f"r{k}"] = F(rng.randint(300, 900), 1000) if not cfg.get("big") else F(rng.randint(300, 7900), 1000)
        return w

    def body(self, env, cfg):
        grid, sp = gridfam.make(env, cfg)
        dim = len(sp["shape"]) if sp["kind"] == "cart" else sp["dim"]
        modes, refine = cfg["modes"], cfg["refine"]
        width = {"none": None, "zero": 0, "sym": None}[cfg["width"]]
        if cfg["width"] == "sym":
            # with refinement the candidates are concrete (the fit region and the dilation count are then
            # concrete too); the optimiser result stays an arbitrary point inside the bounds
            width = env.real("w", 0, 2, strict_lo=True) if not refine else env.const(F(3, 4))
        cands = []
        for k in range(2):
            if cfg.get("big"):
                p = conc_position(sp, k)
                cands.append((p, env.real(f"r{k}", F(1, 4), 8)))
                if k == 0:
                    env.cover("candidate covers every cell of the grid", cands[0][1] > 6)
            elif refine and (cfg["g"] != "c1" or cfg.get("proto")):
                p = conc_position(sp, k)
                cands.append((p, env.const(F(3, 4) + F(k, 8))))
            else:
                p = candidate_positions(env, sp, k, narrow=refine)
                cands.append((p, env.real(f"r{k}", F(1, 4) if not refine else 0, 1)))
        if refine:
            env.real("dummy", 0, 0)
        field = env.field(grid, env.np.zeros(sp["shape"] if sp["kind"] != "polar" and sp["kind"] != "spherical" else [sp["n"]]))
        expect = ("SphericalDroplet" if modes == 0 and width is None and not refine else
                  "DiffuseDroplet" if modes == 0 else
                  "PerturbedDroplet2D" if dim == 2 else
                  "PerturbedDroplet3DAxisSym" if sp["kind"] == "cyl" else "PerturbedDroplet3D")

        def fake_locator(n):
            def fake(mask):
                return env.E.Emulsion([env.D.SphericalDroplet(p, r) for p, r in cands[:n]])
            return fake

        kw = dict(modes=modes, interface_width=width, refine=refine)
        if cfg.get("proto"):
            kw["refine_args"] = dict(least_squares_params=dict(max_nfev=1))
        if modes > 0 and dim == 1:
            with patched(env.IA, "locate_droplets_in_mask", fake_locator(2)):
                env.expect_raises("perturbation modes in one dimension raise the documented ValueError", (ValueError,),
                                  lambda: env.IA.locate_droplets(field, **kw))
            return
        for n in ((1, 0) if refine else (2, 0)):
            with patched(env.IA, "locate_droplets_in_mask", fake_locator(n)):
                res = env.IA.locate_droplets(field, **kw)
            env.prove(f"result is an Emulsion [{n}]", type(res).__name__ == "Emulsion")
            if n == 0:
                env.prove("no candidates: empty result", len(res) == 0)
                continue
            env.cover("refined result exists", refine and len(res) > 0)
            env.prove("one result per candidate (nothing filtered at minimal_radius=0 with positive radii)" if not refine
                      else "at most one result per candidate", len(res) == n if not refine else len(res) <= n)
            for i, d in enumerate(res):
                env.prove(f"class implied by the request [{i}]", type(d).__name__ == expect)
                env.prove(f"dimension equals the grid's [{i}]", d.dim == dim and len(d.position) == dim)
                if modes > 0:
                    env.prove(f"exactly the requested number of amplitudes [{i}]",
                              getattr(d, "modes", None) == modes and len(getattr(d, "amplitudes", ())) == modes)
                if not refine:
                    if width is None:
                        env.prove(f"no width supplied: width unset or absent [{i}]",
                                  getattr(d, "interface_width", None) is None)
                    else:
                        env.prove(f"supplied width is carried by the unrefined result [{i}]",
                                  getattr(d, "interface_width", None) is not None
                                  and bool(env.eq(d.interface_width, width)))
                    p, r = cands[i]
                    env.prove_eq(f"unrefined result keeps the radius [{i}]", d.radius, r)
                    for a in range(dim):
                        env.prove_eq(f"unrefined result keeps the position [{i},{a}]", d.position[a], p[a])
                    if modes > 0:
                        env.prove(f"unrefined amplitudes are zero [{i}]",
                                  all(bool(env.eq(x, 0)) for x in d.amplitudes))
                else:
                    env.prove(f"refined result has an interface width [{i}]", getattr(d, "interface_width", None) is not None)
                    env.prove_le(f"refined radius >= 0 [{i}]", 0, d.radius)
            if len(res):
                env.prove("all droplets share one data layout",
                          all(d.data.dtype == res[0].data.dtype for d in res) and res.dtype == res[0].data.dtype)
                data = res.data
                env.prove("tabular data of the emulsion can be formed", len(data) == len(res))
        env.observe("n", len(res))


HARNESSES = [C19Class]
