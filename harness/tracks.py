"""shared scenario for C06 / C07: DropletTrackList.from_emulsion_time_course on symbolic time courses"""
from fractions import Fraction as F
import itertools

from symx.runner import Harness
from harness.oracle import dist_sq, surf_lt
from harness.c10 import GRIDS, make_grid


def same_val(env, a, b):
    """syntactic equality of two numbers (same term / same float)"""
    if env.mode == "float":
        return float(a) == float(b)
    a, b = env.num(a), env.num(b)
    if isinstance(a, float) or isinstance(b, float):
        return a == b
    from symx.core import toz
    try:
        return toz(a).get_id() == toz(b).get_id()
    except TypeError:
        return False


def count_vectors(nframes, maxn):
    return [list(v) for v in itertools.product(range(maxn + 1), repeat=nframes)]


class TrackScenario(Harness):
    """builds the time course, runs the tracker, reconstructs (frame, index) of every stored droplet"""

    stubs = ["scipy cdist model (metric applied pairwise, scipy's ValueError for empty input)",
             "py-pde CartesianGrid model (periodic distance with wrap-count forking)"]
    cost = 3
    want = "C06"

    def sample(self, cfg, rng):
        g = GRIDS[cfg["grid"]]
        w = {}
        t = F(rng.randint(-3000, 3000), 1000)
        for f, n in enumerate(cfg["counts"]):
            w[f"t{f}"] = t
            t = t + F(rng.randint(1, 2000), 1000)
            for k in range(n):
                for i in range(cfg["dim"]):
                    if g is None:
                        lo, hi = F(-4), F(4)
                    else:
                        lo, hi = g["bounds"][i]
                    w[f"x{f}_{k}_{i}"] = lo + (hi - lo) * F(rng.randint(1, 9999), 10000)
                w[f"r{f}_{k}"] = F(rng.randint(1, 1500), 1000)
        w["maxdist"] = F(rng.randint(1, 6000), 1000)
        return w

    def build(self, env, cfg):
        dim = cfg["dim"]
        g = GRIDS[cfg["grid"]]
        grid, periods = make_grid(env, cfg["grid"])
        T, P, R, frames = [], [], [], []
        for f, n in enumerate(cfg["counts"]):
            t = env.real(f"t{f}", -100, 100)
            if f:
                env.assume(T[-1] < t, "times strictly increasing")
            T.append(t)
            ps, rs, ds = [], [], []
            for k in range(n):
                p = []
                for i in range(dim):
                    if g is None:
                        p.append(env.real(f"x{f}_{k}_{i}", -4, 4))
                    else:
                        a, b = g["bounds"][i]
                        p.append(env.real(f"x{f}_{k}_{i}", a, b))
                r = env.real(f"r{f}_{k}", 0, 2)
                ps.append(p)
                rs.append(r)
                ds.append(env.D.SphericalDroplet(p, r))
            P.append(ps)
            R.append(rs)
            frames.append(ds)
        return grid, periods, T, P, R, frames

    def d2(self, env, P, periods, f, i, g, j):
        # positions lie inside the box, so |delta| < L and k in {-1,0,1} attains the minimum image
        return dist_sq(env, P[f][i], P[g][j], periods, kmax=1)

    def run_tracker(self, env, cfg, grid, T, frames):
        ems = [env.E.Emulsion(ds) for ds in frames]
        etc = env.E.EmulsionTimeCourse(ems, list(T))
        kw = {}
        if grid is not None:
            kw["grid"] = grid
        maxd = None
        if cfg["method"] == "distance" and cfg.get("cutoff", True):
            maxd = env.real("maxdist", 0, 50)
            kw["max_dist"] = maxd
        tracks = env.T.DropletTrackList.from_emulsion_time_course(etc, method=cfg["method"], **kw)
        return etc, tracks, maxd

    def locate(self, env, cfg, etc, tracks, T, P, R):
        """map every stored droplet to (frame, index); returns list per track or None if impossible"""
        dim = cfg["dim"]
        used = set()
        out = []
        ok = True
        for ti, tr in enumerate(tracks):
            ents = []
            env.prove("times and droplets of a track have equal length", len(tr.times) == len(tr.droplets))
            for tt, d in zip(tr.times, tr.droplets):
                fs = [f for f in range(len(T)) if same_val(env, tt, T[f])]
                if not fs:
                    env.prove(f"stored droplet carries its frame's time [{ti}]",
                              env.Or(*[env.eq(tt, T[f]) for f in range(len(T))]) if T else False)
                    ok = False
                    continue
                hit = None
                for f in fs:
                    for k in range(len(P[f])):
                        if (f, k) in used:
                            continue
                        if all(same_val(env, d.position[i], P[f][k][i]) for i in range(dim)) \
                                and same_val(env, d.radius, R[f][k]):
                            hit = (f, k)
                            break
                    if hit:
                        break
                if hit is None:
                    env.prove(f"stored droplet equals an (unused) original of its frame [{ti}]", False)
                    ok = False
                    continue
                used.add(hit)
                ents.append(hit)
                orig = etc.emulsions[hit[0]][hit[1]]
                env.prove("stored droplet is an independent copy",
                          (not env.same_object(d, orig)) and (not env.same_object(d.data, orig.data)))
            out.append(ents)
        total = sum(len(p) for p in P)
        env.prove("every droplet of every frame appears exactly once", ok and len(used) == total)
        return out if ok and len(used) == total else None
