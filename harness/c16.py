"""C16 - the structure factor is a normalised, symmetry-invariant power spectrum"""
from fractions import Fraction as F
import itertools

from symx.runner import Harness

SPACING = [F(3, 4), F(5, 4), F(1, 2)]


def make_grid(env, shape, stretch=1, spacing=None):
    sp = spacing or SPACING
    return env.cartesian([(0, n * sp[a] * stretch) for a, n in enumerate(shape)], list(shape), True)


def field_values(env, shape, name="f"):
    vals = {}
    data = env.np.empty(shape, dtype=object if env.mode != "float" else float)
    for idx in itertools.product(*[range(n) for n in shape]):
        vals[idx] = env.real(name + "_".join(map(str, idx)), -2, 2)
        data[idx] = vals[idx]
    return data, vals


def modes(shape):
    return list(itertools.product(*[range(n) for n in shape]))[1:]


def signed(k, n):
    return k if k < (n + 1) // 2 else k - n


class C16Unsmoothed(Harness):
    name = "C16Unsmoothed"
    prop = "C16"
    bounds = ("get_structure_factor(smoothing=None) on periodic Cartesian grids with every axis length in {1,2,3,4,6}: 1D "
              "2,3,4,6; 2D 2x2, 3x2, 4x2 (thorough 4x3, 3x3); 3D 2x2x2 (thorough); anisotropic spacing; field values, scale "
              "factor symbolic; per mode: non-negativity, Parseval sum, scaling, translation by cells, reflection, axis "
              "permutation, wave numbers = discrete Fourier wave numbers, stretching of the grid")
    stubs = ["numpy.fft.fftn(norm='ortho') = the DFT definition with exact roots of unity; fftfreq = its formula",
             "py-pde CartesianGrid / ScalarField model"]
    cost = 3
    exact_validation = False

    def configs(self, tier):
        shapes = [(2,), (3,), (4,), (2, 2), (4, 2)]
        if tier == "thorough":
            shapes += [(6,), (3, 2), (4, 3), (3, 3), (2, 2, 2), (1, 4)]
        return [dict(shape=list(s)) for s in shapes]

    def sample(self, cfg, rng):
        w = dict(c=F(rng.choice([-1, 1]) * rng.randint(100, 3000), 1000))
        for idx in itertools.product(*[range(n) for n in cfg["shape"]]):
            w["f" + "_".join(map(str, idx))] = F(rng.randint(-2000, 2000), 1000)
        return w

    def sf(self, env, grid, data, **kw):
        k, s = env.IA.get_structure_factor(env.field(grid, data), smoothing=None, **kw)
        return [env.num(x) for x in k], [env.num(x) for x in s]

    def body(self, env, cfg):
        shape = tuple(cfg["shape"])
        dim = len(shape)
        N = 1
        for n in shape:
            N *= n
        grid = make_grid(env, shape)
        data, vals = field_values(env, shape)
        c = env.real("c", -4, 4)
        env.assume(c != 0, "scale factor non-zero")
        sumsq = sum((v * v for v in vals.values()), env.const(0))
        tot = sum(vals.values(), env.const(0))
        env.assume(sumsq > 0, "field not identically zero")
        ms = modes(shape)
        k, s = self.sf(env, grid, data)
        env.prove("one entry per non-zero mode", len(k) == len(s) == N - 1)
        if len(s) != N - 1:
            return
        for i, m in enumerate(ms):
            env.prove_le(f"non-negative {list(m)}".replace(", ", ","), 0, s[i])
            k2 = sum(((2 * env.pi * signed(m[a], shape[a]) / (shape[a] * SPACING[a])) ** 2 for a in range(dim)), env.const(0))
            env.prove(f"wave number = |2 pi m / L| of the mode {list(m)}".replace(", ", ","),
                      env.And(k[i] >= 0, env.eq(k[i] * k[i], k2)))
        ssum = sum(s, env.const(0))
        env.prove_eq("Parseval: sum = 1 - (sum f)^2 / (N sum f^2)", ssum * N * sumsq, N * sumsq - tot * tot)
        # scaling of the field
        _, s2 = self.sf(env, grid, c * data)
        for i, m in enumerate(ms):
            env.prove_eq(f"unchanged by multiplying the field with a constant {list(m)}".replace(", ", ","), s2[i], s[i])
        # translation by whole cells, reflection
        for a in range(dim):
            if shape[a] == 1:
                continue
            _, s3 = self.sf(env, grid, env.np.roll(data, 1, axis=a))
            _, s4 = self.sf(env, grid, env.np.flip(data, axis=a))
            for i, m in enumerate(ms):
                env.prove_eq(f"unchanged by translating the field by one cell {list(m)}".replace(", ", ","), s3[i], s[i])
                mm = list(m)
                mm[a] = (-m[a]) % shape[a]
                j = ms.index(tuple(mm))
                env.prove_eq(f"reflection maps mode k to -k {list(m)}".replace(", ", ","), s4[i], s[j])
        # permutation of the axes together with the grid
        if dim >= 2:
            perm = list(range(1, dim)) + [0]
            shape_p = tuple(shape[p] for p in perm)
            grid_p = make_grid(env, shape_p, spacing=[SPACING[p] for p in perm])
            kp, sp_ = self.sf(env, grid_p, env.np.transpose(data, perm))
            ms_p = modes(shape_p)
            for i, m in enumerate(ms):
                j = ms_p.index(tuple(m[p] for p in perm))
                env.prove(f"axes permuted together with the grid {list(m)}".replace(", ", ","),
                          env.And(env.eq(sp_[j], s[i]), env.eq(kp[j], k[i])))
        # stretching the grid
        for lam in (F(1, 2), F(10)):
            kl, sl = self.sf(env, make_grid(env, shape, stretch=lam), data)
            for i, m in enumerate(ms):
                env.prove(f"stretching the grid divides the wave numbers {list(m)}".replace(", ", ","),
                          env.And(env.eq(kl[i] * lam, k[i]), env.eq(sl[i], s[i])))
        k0, s0 = self.sf(env, grid, data, add_zero=True)
        env.prove("add_zero prepends the pair (0, 1)", len(k0) == N and bool(env.eq(k0[0], 0)) and bool(env.eq(s0[0], 1))
                  and all(bool(env.eq(a, b)) for a, b in zip(s0[1:], s)))
        env.observe("s0", s[0])


class C16Smoothed(Harness):
    name = "C16Smoothed"
    prop = "C16"
    bounds = ("get_structure_factor with smoothing (number / 'auto') at 3 requested wave numbers (first one possibly 0) on "
              "periodic grids 1D 3,4 and 2D 2x2, add_zero both: returned wave numbers are exactly the requested ones, (0, 1) "
              "is prepended, values within the range of the unsmoothed factor, invariance under scaling and translation; "
              "smoothing in {None, 'none', 0} returns the unsmoothed factor; automatic wave numbers: 128 points from "
              "2/L_max to k_max, scaling inversely with the grid")
    stubs = ["SmoothData1D = its definition with exp as a positive, functionally consistent symbol", "DFT definition"]
    cost = 3
    exact_validation = False

    def configs(self, tier):
        return [dict(shape=list(s), sm=sm) for s in ((3,), (4,), (2, 2)) for sm in ("num", "auto")]

    def sample(self, cfg, rng):
        w = dict(c=F(rng.randint(100, 3000), 1000), sig=F(rng.randint(1000, 3000), 1000), q0=F(rng.randint(0, 1000), 1000),
                 q1=F(rng.randint(1000, 3000), 1000), q2=F(rng.randint(3000, 6000), 1000))
        for idx in itertools.product(*[range(n) for n in cfg["shape"]]):
            w["f" + "_".join(map(str, idx))] = F(rng.randint(-2000, 2000), 1000)
        return w

    def body(self, env, cfg):
        shape = tuple(cfg["shape"])
        N = 1
        for n in shape:
            N *= n
        grid = make_grid(env, shape)
        data, vals = field_values(env, shape)
        c = env.real("c", F(1, 10), 4)
        sumsq = sum((v * v for v in vals.values()), env.const(0))
        env.assume(sumsq > 0, "field not identically zero")
        sig = env.real("sig", 1, 3) if cfg["sm"] == "num" else "auto"
        q = [env.real("q0", 0, 1), env.real("q1", 1, 3), env.real("q2", 3, 6)]
        field = env.field(grid, data)
        ku, su = env.IA.get_structure_factor(field, smoothing=None)
        for sm in (None, "none", 0):
            k_, s_ = env.IA.get_structure_factor(field, smoothing=sm, wave_numbers=q)
            env.prove(f"smoothing={sm!r} returns the unsmoothed structure factor", len(k_) == N - 1 and all(
                bool(env.eq(a, b)) for a, b in zip(s_, su)) and all(bool(env.eq(a, b)) for a, b in zip(k_, ku)))
        for add_zero in (False, True):
            k, s = env.IA.get_structure_factor(field, smoothing=sig, wave_numbers=q, add_zero=add_zero)
            off = 1 if add_zero else 0
            env.prove(f"number of returned wave numbers (add_zero={add_zero})", len(k) == len(s) == 3 + off)
            if len(k) != 3 + off:
                continue
            if add_zero:
                env.prove("adding the zero mode prepends the pair (0, 1)", bool(env.eq(k[0], 0)) and bool(env.eq(s[0], 1)))
            for j in range(3):
                env.prove_eq(f"returned wave numbers are exactly the requested ones [{j}] (add_zero={add_zero})", k[off + j], q[j])
            if not add_zero:
                lo, hi = env.min(*[env.num(x) for x in su]), env.max(*[env.num(x) for x in su])
                # 'auto' widths underflow in floats (outside the claim); more than 2 modes: beyond z3 within 10 s
                for j in (range(3) if cfg["sm"] == "num" and len(su) <= 2 else ()):
                    v = env.num(s[j])
                    env.prove(f"smoothed value is a weighted mean of the unsmoothed values [{j}]",
                              env.And(env.le(lo, v), env.le(v, hi)))
                _, s2 = env.IA.get_structure_factor(env.field(grid, c * data), smoothing=sig, wave_numbers=q)
                _, s3 = env.IA.get_structure_factor(env.field(grid, env.np.roll(data, 1, axis=0)), smoothing=sig, wave_numbers=q)
                for j in range(3):
                    env.prove_eq(f"smoothed: unchanged by multiplying the field with a constant [{j}]", s2[j], s[j])
                    env.prove_eq(f"smoothed: unchanged by translating the field by one cell [{j}]", s3[j], s[j])
        # automatic wave numbers
        ka, sa = env.IA.get_structure_factor(field, smoothing=sig)
        Lmax = max(n * SPACING[a] for a, n in enumerate(shape))
        kmax = env.max(*[env.num(x) for x in ku])
        env.prove("automatic wave numbers: 128 points from 2 / L_max to the largest wave number", len(ka) == len(sa) == 128
                  and bool(env.eq(ka[0], F(2) / Lmax)) and bool(env.eq(ka[127], kmax)))
        if len(ka) == 128:
            k2, _ = env.IA.get_structure_factor(env.field(make_grid(env, shape, stretch=2), data), smoothing=sig)
            for j in (0, 1, 64, 127):
                env.prove_eq(f"automatic wave numbers scale inversely with the grid size [{j}]", env.num(k2[j]) * 2, ka[j])
                env.prove_eq(f"automatic wave numbers are equally spaced [{j}]", env.num(ka[j]) * 127,
                             env.num(ka[0]) * (127 - j) + env.num(ka[127]) * j)
        env.observe("s", sa[0])


HARNESSES = [C16Unsmoothed, C16Smoothed]
