"""uninterpreted functions for harnesses: a value that depends on nothing but the argument signature"""
import zlib


def _same(env, a, b):
    if type(a) in (tuple, list) and type(b) in (tuple, list):
        return len(a) == len(b) and all(_same(env, x, y) for x, y in zip(a, b))
    if isinstance(a, (str, bool, type(None))) or isinstance(b, (str, bool, type(None))):
        return type(a) == type(b) and a == b
    if isinstance(a, dict) and isinstance(b, dict):
        return sorted(a) == sorted(b) and all(_same(env, a[k], b[k]) for k in a)
    if env.mode == "float":
        try:
            return float(a) == float(b)
        except (TypeError, ValueError):
            return a is b
    from symx.core import SR, toz, conc
    ca, cb = conc(a), conc(b)
    if ca is not None and cb is not None:
        return ca == cb or (ca != ca and cb != cb)
    try:
        return toz(a).get_id() == toz(b).get_id()
    except TypeError:
        return a is b


class UF:
    def __init__(self, env, name, lo=1, hi=2):
        self.env, self.name, self.table, self.lo, self.hi = env, name, [], lo, hi

    def __call__(self, sig):
        for s, v in self.table:
            if _same(self.env, s, sig):
                return v
        env = self.env
        if env.mode == "float":
            v = self.lo + (self.hi - self.lo) * (zlib.crc32(repr(sig).encode()) % 9973) / 9973.0
        elif env.mode == "exact":
            from fractions import Fraction as F
            from symx.core import SR
            v = SR(F(self.lo) + F(self.hi - self.lo) * F(zlib.crc32(repr(sig).encode()) % 9973, 9973))
        else:
            from symx import core
            from symx.core import SR
            c = core.ctx()
            x = c.fresh(self.name)
            c.add(x >= self.lo, kind="assume")
            c.add(x <= self.hi, kind="assume")
            v = SR(x)
        self.table.append((sig, v))
        return v


def normalise(x):
    """hashable/comparable form of an argument (dicts -> sorted tuples)"""
    if isinstance(x, dict):
        return tuple((k, normalise(x[k])) for k in sorted(x))
    if isinstance(x, (list, tuple)):
        return tuple(normalise(v) for v in x)
    return x
