"""C10 - overlap removal leaves a separated subset and distance queries agree"""
from fractions import Fraction as F
import itertools

from symx.runner import Harness
from harness.oracle import dist_sq, surf_lt

GRIDS = {
    "none": None,
    # cell sizes differ from 1 along the periodic axes, so that a cell count taken for a length shows
    "p1": dict(bounds=[(F(-1, 3), F(14, 3))], shape=[10], periodic=[True]),
    "pn": dict(bounds=[(F(-1, 3), F(11, 3)), (F(2, 7), F(2, 7) + F(5, 2))], shape=[10, 2], periodic=[True, False]),
    "pp": dict(bounds=[(F(0), F(4)), (F(1, 2), F(3))], shape=[10, 4], periodic=[True, True]),
    "nn": dict(bounds=[(F(0), F(4)), (F(1, 2), F(3))], shape=[4, 2], periodic=[False, False]),
}


def make_grid(env, gname):
    g = GRIDS[gname]
    if g is None:
        return None, None
    grid = env.cartesian(g["bounds"], g["shape"], g["periodic"])
    periods = [env.const(b - a) if per else None for (a, b), per in zip(g["bounds"], g["periodic"])]
    return grid, periods


def positions(env, gname, n, dim, wide):
    """symbolic positions; on periodic axes within one period around the box (wide) or inside the box"""
    g = GRIDS[gname]
    P = []
    for k in range(n):
        p = []
        for i in range(dim):
            if g is None:
                p.append(env.real(f"x{k}_{i}", -8, 8))
            else:
                a, b = g["bounds"][i]
                L = b - a
                if g["periodic"][i] and wide:
                    p.append(env.real(f"x{k}_{i}", a - L, b + L))
                else:
                    p.append(env.real(f"x{k}_{i}", a, b))
        P.append(p)
    return P


def sample_positions(rng, gname, n, dim, wide):
    g = GRIDS[gname]
    w = {}
    for k in range(n):
        for i in range(dim):
            if g is None:
                lo, hi = F(-8), F(8)
            else:
                a, b = g["bounds"][i]
                L = b - a
                lo, hi = (a - L, b + L) if (g["periodic"][i] and wide) else (a, b)
            w[f"x{k}_{i}"] = lo + (hi - lo) * F(rng.randint(1, 9999), 10000)
    return w


class C10Remove(Harness):
    name = "C10Remove"
    prop = "C10"
    bounds = ("Emulsion.remove_overlapping on n<=3 droplets (quick; plus 4 droplets at concrete positions on a line) / 4 (thorough, 1D), dims 1-2, grid None or "
              "Cartesian with periodic axes; positions, radii>=0, min_distance (either sign) symbolic")
    stubs = ["py-pde CartesianGrid model (distance, difference_vector with wrap-count forking, window of 4 periods)"]
    cost = 5

    def configs(self, tier):
        c = [dict(n=2, dim=1, grid="none", wide=True), dict(n=2, dim=1, grid="p1", wide=True),
             dict(n=3, dim=1, grid="none", wide=True),
             dict(n=2, dim=2, grid="none", wide=True), dict(n=2, dim=2, grid="pn", wide=True),
             dict(n=2, dim=2, grid="pp", wide=False), dict(n=2, dim=3, grid="none", wide=True),
             dict(n=4, dim=1, grid="none", wide=True, fixedpos=True)]
        if tier == "thorough":
            c += [dict(n=3, dim=1, grid="p1", wide=False), dict(n=3, dim=2, grid="none", wide=True), dict(n=3, dim=2, grid="pn", wide=False),
                  dict(n=4, dim=1, grid="none", wide=True), dict(n=2, dim=2, grid="pp", wide=True),
                  dict(n=3, dim=1, grid="p1", wide=True), dict(n=3, dim=3, grid="none", wide=True)]
        return c

    def sample(self, cfg, rng):
        w = sample_positions(rng, cfg["grid"], cfg["n"], cfg["dim"], cfg["wide"])
        for k in range(cfg["n"]):
            w[f"r{k}"] = F(rng.randint(0, 2000), 1000)
        w["m"] = F(rng.randint(-1000, 1000), 1000)
        return w

    def body(self, env, cfg):
        n, dim = cfg["n"], cfg["dim"]
        grid, periods = make_grid(env, cfg["grid"])
        if cfg.get("fixedpos"):
            # four droplets on a line at concrete, unevenly spaced positions (the nearest centre of the inner two is an
            # outer droplet); radii and minimal distance symbolic
            P = [[env.const(x)] for x in (F(-3), F(0), F(4), F(15, 2))]
            for k in range(n):
                env.real(f"x{k}_0", -8, 8)
        else:
            P = positions(env, cfg["grid"], n, dim, cfg["wide"])
        R = [env.real(f"r{k}", 0, 4) for k in range(n)]
        m = env.real("m", -4, 4)
        drops = [env.D.SphericalDroplet(P[k], R[k]) for k in range(n)]
        em = env.E.Emulsion(drops, copy=False)
        if grid is None:
            em.remove_overlapping(m)
        else:
            em.remove_overlapping(m, grid=grid)
        idx = []
        for d in em:
            j = [k for k in range(n) if env.same_object(d, drops[k])]
            env.prove("survivors are original objects", len(j) == 1)
            if len(j) != 1:
                return
            idx.append(j[0])
        env.prove("survivors keep their order", idx == sorted(idx) and len(set(idx)) == len(idx))
        d2 = {(i, j): dist_sq(env, P[i], P[j], periods, kmax=3 if cfg['wide'] else 1) for i in range(n) for j in range(n) if i != j}
        for i, j in itertools.combinations(idx, 2):
            env.prove(f"surviving pair separated [{i},{j}]",
                      env.Not(surf_lt(env, d2[(i, j)], R[i] + R[j], m)))
        removed = [k for k in range(n) if k not in idx]
        for j in removed:
            env.prove(f"removed droplet was too close to one at least as large [{j}]",
                      env.Or(*[env.And(R[i] >= R[j], surf_lt(env, d2[(i, j)], R[i] + R[j], m))
                               for i in range(n) if i != j]))
            env.prove(f"a strictly largest droplet survives [{j}]",
                      env.Or(*[R[i] >= R[j] for i in range(n) if i != j]))
        for k in range(n):
            env.prove_eq(f"droplet data untouched [{k}]", drops[k].radius, R[k])
        before = list(em)
        if grid is None:
            em.remove_overlapping(m)
        else:
            em.remove_overlapping(m, grid=grid)
        env.prove("second call removes nothing", len(em) == len(before)
                  and all(env.same_object(a, b) for a, b in zip(em, before)))
        env.cover("one droplet removed", len(removed) == 1)
        env.cover("nothing removed", len(removed) == 0)
        if n >= 3:
            env.cover("two droplets removed", len(removed) == 2)
        env.observe("survivors", idx)


class C10Dist(Harness):
    name = "C10Dist"
    prop = "C10"
    bounds = ("get_pairwise_distances / overlaps / get_neighbor_distances on n<=3 droplets, dims 1-3, grid None or "
              "periodic Cartesian; positions and radii symbolic")
    stubs = ["py-pde CartesianGrid model", "scipy cKDTree.query(k=2) contract (two smallest distances, attaining indices)"]
    cost = 3

    def configs(self, tier):
        c = [dict(n=2, dim=1, grid="none", wide=True), dict(n=2, dim=1, grid="p1", wide=True),
             dict(n=3, dim=1, grid="none", wide=True), dict(n=2, dim=2, grid="pn", wide=True),
             dict(n=2, dim=2, grid="nn", wide=True),
             dict(n=2, dim=2, grid="pp", wide=False), dict(n=3, dim=2, grid="none", wide=True),
             dict(n=2, dim=3, grid="none", wide=True)]
        if tier == "thorough":
            c += [dict(n=2, dim=2, grid="pp", wide=True), dict(n=3, dim=1, grid="p1", wide=False),
                  dict(n=3, dim=3, grid="none", wide=True)]
        return c

    def sample(self, cfg, rng):
        w = sample_positions(rng, cfg["grid"], cfg["n"], cfg["dim"], cfg["wide"])
        for k in range(cfg["n"]):
            w[f"r{k}"] = F(rng.randint(0, 2000), 1000)
        return w

    def body(self, env, cfg):
        n, dim = cfg["n"], cfg["dim"]
        grid, periods = make_grid(env, cfg["grid"])
        P = positions(env, cfg["grid"], n, dim, cfg["wide"])
        R = [env.real(f"r{k}", 0, 4) for k in range(n)]
        drops = [env.D.SphericalDroplet(P[k], R[k]) for k in range(n)]
        em = env.E.Emulsion(drops)
        d2 = {(i, j): dist_sq(env, P[i], P[j], periods, kmax=3 if cfg['wide'] else 1) for i in range(n) for j in range(n) if i != j}
        kw = {} if grid is None else dict(grid=grid)
        Dc = em.get_pairwise_distances(**kw)
        Ds = em.get_pairwise_distances(subtract_radius=True, **kw)
        for i in range(n):
            env.prove_eq(f"zero diagonal [{i}]", Dc[i, i], 0)
            env.prove_eq(f"zero diagonal (surface) [{i}]", Ds[i, i], 0)
            for j in range(n):
                if i == j:
                    continue
                c = env.num(Dc[i, j])
                env.prove(f"centre distance = oracle [{i},{j}]", env.And(c >= 0, env.eq(c * c, d2[(i, j)])))
                env.prove_eq(f"symmetric [{i},{j}]", Dc[i, j], Dc[j, i])
                env.prove_eq(f"surface distance = centre - radii [{i},{j}]", Ds[i, j], c - R[i] - R[j])
                env.prove_eq(f"symmetric (surface) [{i},{j}]", Ds[i, j], Ds[j, i])
                ov = drops[i].overlaps(drops[j], **kw)
                env.prove(f"overlaps <=> surface distance negative [{i},{j}]",
                          env.Iff(ov, surf_lt(env, d2[(i, j)], R[i] + R[j], 0)))
        if grid is None:
            nd = em.get_neighbor_distances()
            ns = em.get_neighbor_distances(subtract_radius=True)
            for i in range(n):
                v = env.num(nd[i])
                others = [j for j in range(n) if j != i]
                env.prove(f"neighbour distance = row minimum [{i}]",
                          env.And(v >= 0, *[env.le(v * v, d2[(i, j)]) for j in others],
                                  env.Or(*[env.eq(v * v, d2[(i, j)]) for j in others])))
                s = env.num(ns[i])
                env.prove(f"neighbour surface distance = minimum - radii for an attaining neighbour [{i}]",
                          env.Or(*[env.And(env.eq(v * v, d2[(i, j)]), env.eq(s, v - R[i] - R[j])) for j in others]))
        env.observe("Dc", [[Dc[i, j] for j in range(n)] for i in range(n)])


class FakeRNG:
    """rng whose draws are harness inputs (float replay only)"""


def make_rng(env, draws):
    it = iter(draws)
    if env.mode == "float":
        import numpy as np

        class Gen(np.random.Generator):
            def random(self, size=None, *a, **k):
                return np.array([next(it) for _ in range(size)]) if size is not None else next(it)

            def uniform(self, low=0.0, high=1.0, size=None):
                low, high = np.asarray(low, dtype=float), np.asarray(high, dtype=float)
                shape = np.broadcast(low, high).shape
                if shape == ():
                    return float(low + (high - low) * next(it))
                u = np.array([next(it) for _ in range(int(np.prod(shape)))]).reshape(shape)
                return low + (high - low) * u

        return Gen(np.random.PCG64(0))
    np = env.np

    class Gen:
        def random(self, size=None, *a, **k):
            return env.array([next(it) for _ in range(size)]) if size is not None else next(it)

        def uniform(self, low=0.0, high=1.0, size=None):
            lo, hi = np.asarray(low), np.asarray(high)
            import numpy as rnp
            shape = rnp.broadcast(lo, hi).shape
            if shape == ():
                return env.num(lo) + (env.num(hi) - env.num(lo)) * next(it)
            u = env.array([next(it) for _ in range(int(rnp.prod(shape)))]).reshape(shape)
            return lo + (hi - lo) * u

    return Gen()


class C10Random(Harness):
    name = "C10Random"
    prop = "C10"
    bounds = ("Emulsion.from_random with num<=2 (quick) / 3, bounds or Cartesian grid, radius scalar or range; the rng "
              "draws are symbolic in [0,1)")
    stubs = ["rng contract: uniform(a,b) = a + (b-a)*u, random() = u with u in [0,1) arbitrary",
             "py-pde CartesianGrid.get_random_point model"]
    cost = 2

    def configs(self, tier):
        c = [dict(num=2, region="bounds1", rad="range", rm=True), dict(num=2, region="bounds2", rad="scalar", rm=True),
             dict(num=2, region="grid2", rad="range", rm=True), dict(num=2, region="grid1", rad="range", rm=False)]
        if tier == "thorough":
            c += [dict(num=3, region="bounds1", rad="range", rm=True), dict(num=3, region="grid1", rad="range", rm=True)]
        return c

    def sample(self, cfg, rng):
        w = {f"u{k}": F(rng.randint(0, 9999), 10000) for k in range(12)}
        w["r0"] = F(rng.randint(0, 1000), 1000)
        w["r1"] = w["r0"] + F(rng.randint(0, 1000), 1000)
        return w

    def body(self, env, cfg):
        num = cfg["num"]
        draws = [env.real(f"u{k}", 0, 1, strict_hi=True) for k in range(12)]
        rng = make_rng(env, draws)
        r0 = env.real("r0", 0, 2)
        r1 = env.real("r1", 0, 4)
        env.assume(r0 <= r1, "radius range ordered")
        if cfg["region"].startswith("bounds"):
            dim = int(cfg["region"][-1])
            bnds = [(F(-1, 2), F(3)), (F(1), F(7, 2))][:dim]
            region = [(float(a), float(b)) for a, b in bnds] if env.mode == "float" else [(env.const(a), env.const(b)) for a, b in bnds]
        else:
            dim = int(cfg["region"][-1])
            bnds = [(F(-1, 3), F(11, 3)), (F(2, 7), F(2, 7) + F(5, 2))][:dim]
            region = env.cartesian(bnds, [4, 2][:dim], [True, False][:dim])
        radius = (r0, r1) if cfg["rad"] == "range" else r1
        em = env.E.Emulsion.from_random(num, region, radius, remove_overlapping=cfg["rm"], rng=rng)
        env.prove("at most num droplets", len(em) <= num)
        if not cfg["rm"]:
            env.prove("exactly num droplets without overlap removal", len(em) == num)
        for k, d in enumerate(em):
            for i in range(dim):
                a, b = bnds[i]
                env.prove(f"position inside region [{k},{i}]",
                          env.And(env.num(d.position[i]) >= env.const(a), env.num(d.position[i]) <= env.const(b)))
            lo = r0 if cfg["rad"] == "range" else r1
            env.prove(f"radius inside range [{k}]", env.And(env.num(d.radius) >= lo, env.num(d.radius) <= r1))
        if cfg["rm"]:
            for a, b in itertools.combinations(range(len(em)), 2):
                d2 = dist_sq(env, [env.num(x) for x in em[a].position], [env.num(x) for x in em[b].position])
                env.prove(f"no overlap left [{a},{b}]",
                          env.Not(surf_lt(env, d2, env.num(em[a].radius) + env.num(em[b].radius), 0)))
        env.cover("a droplet was removed", len(em) < num)
        env.cover("all kept", len(em) == num)
        env.observe("n", len(em))


HARNESSES = [C10Remove, C10Dist, C10Random]
