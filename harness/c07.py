"""C07 - tracks follow droplet identity"""
from fractions import Fraction as F
import itertools

from harness.tracks import TrackScenario, count_vectors
from harness.oracle import surf_lt


class C07Identity(TrackScenario):
    name = "C07Identity"
    prop = "C07"
    bounds = ("time courses of <=3 frames x <=2 droplets, 1D and 2D, grid None / periodic Cartesian, both methods; "
              "positions, radii, times, cut-off symbolic; overlap / distance relations from an independent "
              "min-image oracle")

    def configs(self, tier):
        out = []
        for method in ("overlap", "distance"):
            for counts in count_vectors(2, 2) + [[1, 1, 1], [2, 1, 2], [1, 2, 1], [2, 2, 1], [1, 0, 1]] + ([[2, 2, 2]] if tier == 'thorough' else []):
                if sum(counts) == 0 or (method == "distance" and 0 in counts[1:] and any(counts[:counts.index(0) if 0 in counts else 0])):
                    continue
                for grid in ("none", "p1"):
                    if grid == "p1" and sum(counts) > 4 and tier != "thorough":
                        continue
                    out.append(dict(counts=counts, dim=1, grid=grid, method=method,
                                    _cost=2 ** sum(counts) * (3 if grid == "p1" else 1)))
            for counts in ([1, 1], [2, 1], [1, 2]):
                for grid in ("none", "pn"):
                    out.append(dict(counts=counts, dim=2, grid=grid, method=method, _cost=2 ** sum(counts)))
        # three living tracks competing for two droplets (greedy matching order matters)
        out.append(dict(counts=[3, 2], dim=1, grid="none", method="distance", _cost=40))
        out.append(dict(counts=[2, 3], dim=1, grid="none", method="distance", _cost=40))
        if tier == "thorough":
            for method in ("overlap", "distance"):
                for grid in ("none", "pn"):
                    out.append(dict(counts=[2, 2], dim=2, grid=grid, method=method, _cost=64))
                for counts in ([3, 2], [2, 3], [3, 3], [2, 2, 2, 1]):
                    if method == "distance" and counts in ([3, 2], [2, 3]):
                        continue
                    out.append(dict(counts=counts, dim=1, grid="none", method=method, _cost=2 ** sum(counts)))
                out.append(dict(counts=[2, 2], dim=2, grid="pp", method=method, _cost=64))
        return out

    def body(self, env, cfg):
        grid, periods, T, P, R, frames = self.build(env, cfg)
        etc, tracks, maxd = self.run_tracker(env, cfg, grid, T, frames)
        ents = self.locate(env, cfg, etc, tracks, T, P, R)
        if ents is None:
            return
        nf = len(P)
        linked = set()          # ((f,i),(f+1,j)) consecutive entries of one track
        first = {}
        for e in ents:
            for a, b in zip(e[:-1], e[1:]):
                linked.add((a, b))
        starts = {e[0] for e in ents if e}
        ends = {e[-1] for e in ents if e}

        def d2(a, b):
            return self.d2(env, P, periods, a[0], a[1], b[0], b[1])

        def ov(a, b):
            return surf_lt(env, d2(a, b), R[a[0]][a[1]] + R[b[0]][b[1]], 0)

        if cfg["method"] == "overlap":
            for a, b in linked:
                env.prove("consecutive droplets of a track overlap", ov(a, b))
                env.prove("consecutive droplets of a track are in consecutive frames", b[0] == a[0] + 1)
            for f in range(1, nf):
                for j in range(len(P[f])):
                    b = (f, j)
                    prev = [(f - 1, i) for i in range(len(P[f - 1]))]
                    if b not in starts:
                        env.prove("a droplet overlapping no droplet of the previous frame starts a new track",
                                  env.Or(*[ov(a, b) for a in prev]) if prev else False)
                # one-to-one overlap relation between frames f-1 and f => links are exactly that relation
                A = [(f - 1, i) for i in range(len(P[f - 1]))]
                B = [(f, j) for j in range(len(P[f]))]
                hyp = []
                for a in A:
                    for b1, b2 in itertools.combinations(B, 2):
                        hyp.append(env.Not(env.And(ov(a, b1), ov(a, b2))))
                for b in B:
                    for a1, a2 in itertools.combinations(A, 2):
                        hyp.append(env.Not(env.And(ov(a1, b), ov(a2, b))))
                H = env.And(*hyp) if hyp else True
                for a in A:
                    for b in B:
                        env.prove("one-to-one overlap relation is followed exactly",
                                  env.Implies(H, env.Iff((a, b) in linked, ov(a, b))))
            env.cover("a link exists", len(linked) > 0)
        else:
            def within(a, b):       # centre distance <= cut-off
                if maxd is None:
                    return True
                return env.Not(surf_lt(env, maxd * maxd, 0, 0)) if False else (d2(a, b) <= maxd * maxd)

            for a, b in linked:
                env.prove("linked droplets are within the cut-off", within(a, b))
                env.prove("linked droplets are in consecutive frames", b[0] == a[0] + 1)
            for f in range(1, nf):
                A = [(f - 1, i) for i in range(len(P[f - 1]))]
                B = [(f, j) for j in range(len(P[f]))]
                for a in A:
                    for b in B:
                        if (a, b) in linked:
                            continue
                        blockers = [env.le(d2(a, b2), d2(a, b)) for (a2, b2) in linked if a2 == a] + \
                                   [env.le(d2(a2, b), d2(a, b)) for (a2, b2) in linked if b2 == b]
                        env.prove("links are the greedy closest-pair matching (an unlinked pair within the cut-off "
                                  "is blocked by a closer link)",
                                  env.Or(env.Not(within(a, b)), *blockers))
                        if a in ends and b in starts:
                            env.prove("no track ends where a new one starts within the cut-off",
                                      env.Not(within(a, b)))
                # identity under small motion
                if len(A) == len(B) and len(A) >= 1:
                    hyp = []
                    for k in range(len(A)):
                        for i, j in itertools.combinations(range(len(A)), 2):
                            hyp.append(4 * d2(A[k], B[k]) < d2(A[i], A[j]))
                        hyp.append(within(A[k], B[k]))
                    H = env.And(*hyp) if hyp else True
                    for k in range(len(A)):
                        env.prove("droplets moving less than half their separation keep their identity",
                                  env.Implies(H, (A[k], B[k]) in linked))
            env.cover("a link exists", len(linked) > 0)
            env.cover("a pair is cut off", len(linked) == 0 and nf >= 2 and len(P[0]) > 0 and len(P[1]) > 0)
        env.observe("links", sorted([list(a) + list(b) for a, b in linked]))


HARNESSES = [C07Identity]
