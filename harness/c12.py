"""C12 - sphere volume / surface / radius conversions are mutually consistent"""
from fractions import Fraction as F

from symx.runner import Harness


def V(env, r, dim):
    return {1: 2 * r, 2: env.pi * r * r, 3: env.const(F(4, 3)) * env.pi * r * r * r}[dim]


def S(env, r, dim):
    return {1: env.const(2) + 0 * r, 2: 2 * env.pi * r, 3: 4 * env.pi * r * r}[dim]


class C12Conversions(Harness):
    name = "C12Conversions"
    prop = "C12"
    bounds = "dims 1-3; scalar and 2-element array arguments; all 5 variants of each conversion; r>=0, V>=0, S>=0, h>0 symbolic"
    stubs = ["numba decorators = identity"]

    def configs(self, tier):
        return [dict(dim=d) for d in (1, 2, 3)]

    def sample(self, cfg, rng):
        return dict(r=F(rng.randint(0, 4000), 1000), vol=F(rng.randint(0, 9000), 1000),
                    surf=F(rng.randint(1, 9000), 1000), h=F(rng.randint(1, 3000), 1000),
                    r2=F(rng.randint(0, 4000), 1000))

    def body(self, env, cfg):
        dim = cfg["dim"]
        sp = env.SPH
        r = env.real("r", 0)
        vol = env.real("vol", 0)
        surf = env.real("surf", 0)
        h = env.real("h", 0, strict_lo=True)
        r2 = env.real("r2", 0)
        # --- variants of volume_from_radius agree with the formula
        vvars = {
            "plain": sp.volume_from_radius(r, dim),
            "compiled": sp.make_volume_from_radius_compiled(dim)(r),
            "nd": sp.make_volume_from_radius_nd_compiled()(r, dim),
        }
        for k, v in vvars.items():
            env.prove_eq(f"volume_from_radius[{k}] = V_d(r)", v, V(env, r, dim))
        arr = sp.volume_from_radius(env.array([r, r2]), dim)
        env.prove_eq("volume_from_radius(array)[0]", arr[0], V(env, r, dim))
        env.prove_eq("volume_from_radius(array)[1]", arr[1], V(env, r2, dim))
        arr = sp.make_volume_from_radius_compiled(dim)(env.array([r, r2]))
        env.prove_eq("volume_compiled(array)[1]", arr[1], V(env, r2, dim))
        arr = sp.make_volume_from_radius_nd_compiled()(env.array([r, r2]), dim)
        env.prove_eq("volume_nd(array)[1]", arr[1], V(env, r2, dim))
        # --- variants of radius_from_volume: R >= 0 and V_d(R) = vol  (defines R uniquely)
        rvars = {
            "plain": sp.radius_from_volume(vol, dim),
            "compiled": sp.make_radius_from_volume_compiled(dim)(vol),
            "nd": sp.make_radius_from_volume_nd_compiled()(vol, dim),
            "array": sp.radius_from_volume(env.array([vol, V(env, r2, dim)]), dim)[0],
            "compiled-array": sp.make_radius_from_volume_compiled(dim)(env.array([V(env, r2, dim), vol]))[1],
        }
        for k, R in rvars.items():
            env.prove_le(f"radius_from_volume[{k}] >= 0", 0, R)
            env.prove_eq(f"V_d(radius_from_volume[{k}](v)) = v", V(env, env.num(R), dim), vol)
        # round trip radius -> volume -> radius
        for k, f in {"plain": lambda x: sp.radius_from_volume(x, dim),
                     "compiled": sp.make_radius_from_volume_compiled(dim),
                     "nd": lambda x: sp.make_radius_from_volume_nd_compiled()(x, dim)}.items():
            env.prove_eq(f"radius_from_volume[{k}](volume_from_radius(r)) = r", f(sp.volume_from_radius(r, dim)), r)
        back = sp.radius_from_volume(sp.volume_from_radius(env.array([r, r2]), dim), dim)
        env.prove_eq("array round trip [1]", back[1], r2)
        # --- surface
        svars = {"plain": sp.surface_from_radius(r, dim), "compiled": sp.make_surface_from_radius_compiled(dim)(r)}
        for k, s in svars.items():
            env.prove_eq(f"surface_from_radius[{k}] = S_d(r)", s, S(env, r, dim))
        sa = sp.surface_from_radius(env.array([r, r2]), dim)
        env.prove_eq("surface_from_radius(array)[1]", sa[1], S(env, r2, dim))
        sc = sp.make_surface_from_radius_compiled(dim)(env.array([r, r2]))
        env.prove_eq("surface_compiled(array)[1]", sc[1], S(env, r2, dim))
        if dim == 1:
            env.expect_raises("radius_from_surface raises in 1d", (RuntimeError,),
                              lambda: sp.radius_from_surface(surf, 1))
        else:
            R = sp.radius_from_surface(surf, dim)
            env.prove_le("radius_from_surface >= 0", 0, R)
            env.prove_eq("S_d(radius_from_surface(s)) = s", S(env, env.num(R), dim), surf)
            env.prove_eq("radius_from_surface(surface_from_radius(r)) = r",
                         sp.radius_from_surface(sp.surface_from_radius(r, dim), dim), r)
            Ra = sp.radius_from_surface(env.array([surf, S(env, r2, dim)]), dim)
            env.prove_eq("radius_from_surface(array)[1]", Ra[1], r2)
        # --- array arguments of higher rank keep their shape and agree element-wise with the scalar variants
        A2 = env.array([[r, r2], [r2, r], [r, r]])
        for nm, fn, ref in (
                ("volume_from_radius", lambda x: sp.volume_from_radius(x, dim), lambda x: V(env, x, dim)),
                ("volume_compiled", sp.make_volume_from_radius_compiled(dim), lambda x: V(env, x, dim)),
                ("surface_from_radius", lambda x: sp.surface_from_radius(x, dim), lambda x: S(env, x, dim)),
                ("surface_compiled", sp.make_surface_from_radius_compiled(dim), lambda x: S(env, x, dim))):
            out = env.np.asarray(fn(A2))
            env.prove(f"{nm}(3x2 array) keeps the shape", tuple(out.shape) == (3, 2))
            if tuple(out.shape) == (3, 2):
                env.prove_eq(f"{nm}(3x2 array)[0,1]", out[0, 1], ref(r2))
                env.prove_eq(f"{nm}(3x2 array)[2,0]", out[2, 0], ref(r))
        VA = env.array([[vol, V(env, r2, dim)], [V(env, r, dim), vol]])
        for nm, fn in (("radius_from_volume", lambda x: sp.radius_from_volume(x, dim)),
                       ("radius_compiled", sp.make_radius_from_volume_compiled(dim))):
            out = env.np.asarray(fn(VA))
            env.prove(f"{nm}(2x2 array) keeps the shape", tuple(out.shape) == (2, 2))
            if tuple(out.shape) == (2, 2):
                env.prove_eq(f"{nm}(2x2 array)[0,1]", out[0, 1], r2)
                env.prove_eq(f"{nm}(2x2 array)[1,0]", out[1, 0], r)
        # --- surface is the derivative of the volume (sandwich form, pins S = V' for continuous S)
        dV = env.num(sp.volume_from_radius(r + h, dim)) - env.num(sp.volume_from_radius(r, dim))
        env.prove_le("S(r)*h <= V(r+h)-V(r)", env.num(sp.surface_from_radius(r, dim)) * h, dV)
        env.prove_le("V(r+h)-V(r) <= S(r+h)*h", dV, env.num(sp.surface_from_radius(r + h, dim)) * h)
        env.cover("r = 0 reachable", r == 0)
        env.cover("vol = 0 reachable", vol == 0)
        env.observe("R(vol)", rvars["plain"])
        env.observe("V(r)", vvars["plain"])


class C12Droplet(Harness):
    name = "C12Droplet"
    prop = "C12"
    bounds = "SphericalDroplet and DiffuseDroplet (interface width unset / symbolic in [0,2]) in dims 1-3; position, radius>=0 (curvature: >0), volume>=0 symbolic"
    stubs = ["numba decorators = identity", "pde.tools.cuboid.Cuboid model (from_points, bounds)"]

    def configs(self, tier):
        return [dict(dim=d, cls=c) for d in (1, 2, 3) for c in ("SphericalDroplet", "DiffuseDroplet")] + \
            [dict(dim=d, cls="DiffuseDroplet", width=True) for d in (1, 2, 3)]

    def sample(self, cfg, rng):
        w = dict(r=F(rng.randint(1, 4000), 1000), vol=F(rng.randint(0, 9000), 1000), w=F(rng.randint(0, 2000), 1000))
        for i in range(cfg["dim"]):
            w[f"p{i}"] = F(rng.randint(-5000, 5000), 1000)
        return w

    def body(self, env, cfg):
        dim = cfg["dim"]
        cls = getattr(env.D, cfg["cls"])
        p = [env.real(f"p{i}") for i in range(dim)]
        r = env.real("r", 0)
        vol = env.real("vol", 0)
        if cfg.get("width"):
            wd = env.real("w", 0, 2)
            d = cls(p, r, wd)
            env.prove_eq("interface width is carried", d.interface_width, wd)
            env.cover("width > 0", wd > 0)
        else:
            d = cls(p, r)
        env.prove_eq("droplet.radius", d.radius, r)
        env.prove_eq("droplet.volume = V_d(r)", d.volume, V(env, r, dim))
        env.prove_eq("droplet.surface_area = S_d(r)", d.surface_area, S(env, r, dim))
        env.prove("droplet.dim", d.dim == dim)
        for i in range(dim):
            env.prove_eq(f"position[{i}]", d.position[i], p[i])
        if env.is_true(r > 0):
            env.prove_eq("curvature * r = 1", env.num(d.interface_curvature) * r, 1)
            env.cover("r > 0")
        else:
            env.cover("r = 0")
        bb = d.bbox
        for i, (lo, hi) in enumerate(bb.bounds):
            env.prove_eq(f"bbox lower[{i}]", lo, p[i] - r)
            env.prove_eq(f"bbox upper[{i}]", hi, p[i] + r)
        # from_volume / volume setter
        d2 = cls.from_volume(p, vol)
        env.prove_le("from_volume radius >= 0", 0, d2.radius)
        env.prove_eq("from_volume(...).volume = v", d2.volume, vol)
        d.volume = vol
        env.prove_eq("d.volume = v; d.volume == v", d.volume, vol)
        env.prove_eq("setter radius = from_volume radius", d.radius, d2.radius)
        for i in range(dim):
            env.prove_eq(f"setter keeps position[{i}]", d.position[i], p[i])
        env.observe("radius after set", d.radius)


class C12Perturbed2D(Harness):
    name = "C12Perturbed2D"
    prop = "C12"
    bounds = ("PerturbedDroplet2D (0 or 2 amplitudes in [-1/2,1/2]): setting the volume and reading it back, from any "
              "initial radius >= 0 (zero included); volume formula pi r^2 (1 + sum a^2/2)")
    stubs = ["numba decorators = identity"]

    def configs(self, tier):
        return [dict(modes=0), dict(modes=2)]

    def sample(self, cfg, rng):
        w = dict(r=F(rng.randint(0, 3000), 1000), vol=F(rng.randint(0, 9000), 1000), p0=F(1, 3), p1=F(-2, 7))
        for k in range(cfg["modes"]):
            w[f"a{k}"] = F(rng.randint(-500, 500), 1000)
        return w

    def body(self, env, cfg):
        p = [env.real("p0"), env.real("p1")]
        r = env.real("r", 0)
        vol = env.real("vol", 0)
        amps = [env.real(f"a{k}", F(-1, 2), F(1, 2)) for k in range(cfg["modes"])]
        d = env.D.PerturbedDroplet2D(p, r, 1, amps if amps else None)
        term = 1 + sum((a * a for a in amps), env.const(0)) / 2
        env.prove_eq("volume = pi r^2 (1 + sum a^2 / 2)", d.volume, env.pi * r * r * term)
        d.volume = vol
        env.prove_eq("d.volume = v; d.volume == v", d.volume, vol)
        env.prove_le("radius after setting the volume >= 0", 0, d.radius)
        env.prove_eq("radius after setting the volume", env.pi * env.num(d.radius) * env.num(d.radius) * term, vol)
        for i in range(2):
            env.prove_eq(f"setter keeps position[{i}]", d.position[i], p[i])
        env.cover("initial radius zero", r == 0)
        env.observe("radius", d.radius)


HARNESSES = [C12Conversions, C12Droplet, C12Perturbed2D]
