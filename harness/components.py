"""independent reference: connected components of a binary image on a (partly) periodic lattice

Cells connect through faces and across periodic boundaries.  A breadth-first search carries
*unwrapped* integer coordinates; a cell reached with two different unwrapped coordinates shows
that the component winds around the axes in which they differ.
"""
from fractions import Fraction as F
import itertools


def components(bits, shape, periodic):
    """bits: dict index-tuple -> bool.  Returns list of dicts
    (cells: list of raw index tuples, unwrapped: list of unwrapped tuples (same order), size,
     winds: set of axes, com: tuple of Fractions = mean of unwrapped cell centres in cell units (index + 1/2))"""
    dim = len(shape)
    seen = {}
    comps = []
    for start in itertools.product(*[range(n) for n in shape]):
        if not bits[start] or start in seen:
            continue
        cid = len(comps)
        seen[start] = (cid, start)
        order = [start]
        unwr = {start: start}
        winds = set()
        queue = [start]
        while queue:
            cur = queue.pop(0)
            u = unwr[cur]
            for a in range(dim):
                for step in (-1, 1):
                    raw = list(cur)
                    uw = list(u)
                    raw[a] += step
                    uw[a] += step
                    if raw[a] < 0 or raw[a] >= shape[a]:
                        if not periodic[a]:
                            continue
                        raw[a] %= shape[a]
                    raw = tuple(raw)
                    uw = tuple(uw)
                    if not bits[raw]:
                        continue
                    if raw in unwr:
                        if unwr[raw] != uw:
                            for b in range(dim):
                                if unwr[raw][b] != uw[b]:
                                    winds.add(b)
                        continue
                    unwr[raw] = uw
                    seen[raw] = (cid, uw)
                    order.append(raw)
                    queue.append(raw)
        n = len(order)
        com = tuple(sum(F(2 * unwr[c][a] + 1, 2) for c in order) / n for a in range(dim))
        comps.append(dict(cells=order, unwrapped=[unwr[c] for c in order], size=n, winds=winds, com=com))
    return comps


def max_matching(adj, nleft):
    """size of a maximum bipartite matching; adj[i] = list of right vertices admissible for left vertex i"""
    match = {}

    def try_(i, vis):
        for j in adj[i]:
            if j in vis:
                continue
            vis.add(j)
            if j not in match or try_(match[j], vis):
                match[j] = i
                return True
        return False

    return sum(1 for i in range(nleft) if try_(i, set()))
