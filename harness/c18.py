"""C18 - detection depends on the image only through the documented threshold"""
from fractions import Fraction as F
import itertools

from symx.runner import Harness
from harness import gridfam
from harness.c19 import patched

GRIDS = {
    "n4": dict(kind="cart", shape=[4], per="n"),
    "p4": dict(kind="cart", shape=[4], per="p", sp="iso", org="0"),
    "pn22": dict(kind="cart", shape=[2, 2], per="pn", sp="b", org="0"),
    "polar3": dict(kind="polar", R="3/2", n=3),
}


def cells_of(sp):
    if sp["kind"] == "cart":
        return list(itertools.product(*[range(n) for n in sp["shape"]]))
    return [(i,) for i in range(sp["n"])]


def field_values(env, sp, name="v"):
    shape = sp["shape"] if sp["kind"] == "cart" else [sp["n"]]
    data = env.np.empty(shape, dtype=object if env.mode != "float" else float)
    vals = {}
    for idx in cells_of(sp):
        vals[idx] = env.real(name + "_".join(map(str, idx)), -2, 2)
        data[idx] = vals[idx]
    return data, vals


def sample_values(sp, rng, w, name="v"):
    for idx in cells_of(sp):
        w[name + "_".join(map(str, idx))] = F(rng.randint(-2000, 2000), 1000)


def oracle_threshold(env, rule, vals, t):
    xs = list(vals.values())
    if rule == "number":
        return t
    if rule in ("extrema", "auto"):
        return (env.min(*xs) + env.max(*xs)) / 2
    if rule == "mean":
        return sum(xs[1:], xs[0]) / len(xs)
    raise ValueError(rule)


class Recorder:
    def __init__(self, orig):
        self.orig, self.masks = orig, []

    def __call__(self, mask):
        self.masks.append(mask)
        return self.orig(mask)


class C18Threshold(Harness):
    name = "C18Threshold"
    prop = "C18"
    bounds = ("locate_droplets on fields of symbolic values (Cartesian 1D 4 cells n/p, 2D 2x2, polar 3) for threshold = "
              "symbolic number / 'extrema' / 'auto' / 'mean': binary image handed to the locator = field > t; positive "
              "affine map a*v+b (a>0, b symbolic) leaves the binary image and the result unchanged")
    stubs = ["locate_droplets_in_mask wrapped by a recorder (calls through)", "py-pde grid / field model"]
    cost = 3
    mod_mode = "fork"
    exact_validation = False

    def configs(self, tier):
        out = []
        for g in GRIDS:
            for rule in ("number", "extrema", "auto", "mean"):
                if tier != "thorough" and g in ("pn22", "polar3") and rule in ("auto",):
                    continue
                out.append(dict(GRIDS[g], g=g, rule=rule))
        return out

    def sample(self, cfg, rng):
        sp = gridfam.spec_of(cfg)
        w = dict(t=F(rng.randint(-1500, 1500), 1000), a=F(rng.randint(100, 3000), 1000), b=F(rng.randint(-3000, 3000), 1000))
        sample_values(sp, rng, w)
        return w

    def body(self, env, cfg):
        grid, sp = gridfam.make(env, cfg)
        rule = cfg["rule"]
        data, vals = field_values(env, sp)
        t = env.real("t", -2, 2)
        a = env.real("a", F(1, 10), 4)
        b = env.real("b", -4, 4)
        field = env.field(grid, data)
        thr = t if rule == "number" else rule
        rec = Recorder(env.IA.locate_droplets_in_mask)
        with patched(env.IA, "locate_droplets_in_mask", rec):
            res = env.IA.locate_droplets(field, threshold=thr)
        env.prove("the locator is called exactly once with a binary image", len(rec.masks) == 1
                  and rec.masks[0].data.dtype == bool)
        if len(rec.masks) != 1:
            return
        T = oracle_threshold(env, rule, vals, t)
        m1 = rec.masks[0].data
        for idx in cells_of(sp):
            env.prove(f"binary image = cells exceeding the documented threshold {list(idx)}".replace(", ", ","),
                      env.Iff(bool(m1[idx]), vals[idx] > T))
        direct = env.IA.locate_droplets_in_mask(env.field(grid, m1.copy(), dtype=bool))
        env.prove("result = droplets located in that binary image", len(direct) == len(res) and all(
            bool(env.eq(x.radius, y.radius)) and all(bool(env.eq(p, q)) for p, q in zip(x.position, y.position))
            for x, y in zip(res, direct)))
        # positive affine change of the intensities
        data2 = data.copy()
        for idx in cells_of(sp):
            data2[idx] = a * vals[idx] + b
        rec2 = Recorder(env.IA.locate_droplets_in_mask)
        with patched(env.IA, "locate_droplets_in_mask", rec2):
            res2 = env.IA.locate_droplets(env.field(grid, data2), threshold=(a * t + b) if rule == "number" else rule)
        m2 = rec2.masks[0].data
        env.prove("affine change of intensities: same binary image", all(bool(m1[idx]) == bool(m2[idx]) for idx in cells_of(sp)))
        env.prove("affine change of intensities: same result", len(res) == len(res2) and all(
            bool(env.eq(x.radius, y.radius)) and all(bool(env.eq(p, q)) for p, q in zip(x.position, y.position))
            for x, y in zip(res, res2)))
        env.cover("a cell exactly at the threshold", env.Or(*[vals[idx] == T for idx in cells_of(sp)]))
        env.cover("constant field", env.And(*[vals[idx] == vals[cells_of(sp)[0]] for idx in cells_of(sp)]))
        env.observe("n", len(res))


class C18Otsu(Harness):
    name = "C18Otsu"
    prop = "C18"
    bounds = ("threshold_otsu on 4 (thorough 5) symbolic values with nbins in {2,3,4} (the 256-bin default is outside the "
              "bound; the algorithm is size-generic): returned value = centre of the first bin split maximising the "
              "between-class variance of the histogram; invariance of the induced binary image under a*v+b")
    stubs = ["np.histogram = its definition on symbolic values (equal-width bins over [min,max], right edge inclusive)"]
    cost = 4
    exact_validation = False

    def configs(self, tier):
        ns = (4,) if tier != "thorough" else (4, 5)
        return [dict(n=n, nbins=k) for n in ns for k in (2, 3, 4)]

    def sample(self, cfg, rng):
        w = {f"v{i}": F(rng.randint(-2000, 2000), 1000) for i in range(cfg["n"])}
        w.update(a=F(rng.randint(100, 3000), 1000), b=F(rng.randint(-3000, 3000), 1000))
        return w

    def body(self, env, cfg):
        n, nb = cfg["n"], cfg["nbins"]
        vals = [env.real(f"v{i}", -2, 2) for i in range(n)]
        a = env.real("a", F(1, 10), 4)
        b = env.real("b", -4, 4)
        env.assume(env.Or(*[vals[i] != vals[0] for i in range(1, n)]), "data not constant")
        thr = env.num(env.IA.threshold_otsu(env.array(vals), nbins=nb))
        mn, mx = env.min(*vals), env.max(*vals)
        width = (mx - mn) / nb
        # own histogram (concrete counts on each path; comparisons fork only where the path left them open)
        counts = [0] * nb
        for v in vals:
            k = 0
            while k < nb - 1 and env.is_true(v >= mn + width * (k + 1)):
                k += 1
            counts[k] += 1
        centres = [mn + width * F(2 * k + 1, 2) for k in range(nb)]
        var = []
        for j in range(nb - 1):            # split after bin j
            w1, w2 = sum(counts[:j + 1]), sum(counts[j + 1:])
            if w1 == 0 or w2 == 0:
                var.append(None)
                continue
            m1 = sum((counts[k] * centres[k] for k in range(j + 1)), env.const(0)) / w1
            m2 = sum((counts[k] * centres[k] for k in range(j + 1, nb)), env.const(0)) / w2
            var.append(w1 * w2 * (m1 - m2) * (m1 - m2))
        env.prove("every split has two non-empty classes (first and last bin are never empty)", all(v is not None for v in var))
        if any(v is None for v in var):
            return
        if env.mode == "float":
            # exact ties of the between-class variance (e.g. symmetric counts 2,1,2) are broken by rounding in
            # floats; such inputs cannot validate the exact-arithmetic encoding
            from symx.core import ReplayReject
            top = sorted((float(v) for v in var), reverse=True)
            if len(top) > 1 and abs(top[0] - top[1]) <= 1e-9 * (1 + abs(top[0])):
                raise ReplayReject("between-class variance tie (decided by rounding in floats)")
        alts = []
        for j in range(nb - 1):
            alts.append(env.And(env.eq(thr, centres[j]), *[env.le(var[i], var[j]) for i in range(nb - 1)],
                                *[var[i] < var[j] for i in range(j)]))
        env.prove("threshold_otsu = centre of the first split maximising the between-class variance", env.Or(*alts))
        thr2 = env.num(env.IA.threshold_otsu(env.array([a * v + b for v in vals]), nbins=nb))
        for i, v in enumerate(vals):
            env.prove(f"affine change of intensities: same binary image [{i}]", env.Iff(v > thr, a * v + b > thr2))
        env.prove_eq("affine change of intensities: threshold maps the same way", thr2, a * thr + b)
        env.observe("thr", thr)


class C18MinRadius(Harness):
    name = "C18MinRadius"
    prop = "C18"
    bounds = ("locate_droplets with symbolic minimal_radius on concrete binary-like fields (1D 7 cells n/p, 2D 3x3 pn) with "
              "symbolic grid scale: returned droplets = unfiltered droplets with radius > minimal_radius, in order")
    stubs = ["py-pde grid / field model"]
    cost = 2
    mod_mode = "fork"
    exact_validation = False

    IMAGES = {
        "a": dict(shape=[7], per="n", img=[1, 0, 1, 1, 0, 1, 1]),
        "b": dict(shape=[7], per="p", img=[1, 0, 1, 1, 1, 0, 1]),
        "c": dict(shape=[3, 3], per="pn", img=[[1, 0, 0], [0, 0, 1], [1, 1, 0]]),
    }

    def configs(self, tier):
        return [dict(im=k) for k in self.IMAGES]

    def sample(self, cfg, rng):
        return dict(m=F(rng.randint(-500, 2500), 1000), sc=F(rng.randint(400, 2500), 1000))

    def body(self, env, cfg):
        im = self.IMAGES[cfg["im"]]
        m = env.real("m", -1, 3)
        sc = env.real("sc", F(1, 3), 3)
        shape = im["shape"]
        grid = env.cartesian([(0, n * sc) for n in shape], shape, [c == "p" for c in im["per"]])
        data = env.array(im["img"])
        field = env.field(grid, data)
        allres = env.IA.locate_droplets(field, minimal_radius=-float("inf"))
        res = env.IA.locate_droplets(field, minimal_radius=m)
        keep = [d for d in allres if env.is_true(env.num(d.radius) > m)]
        env.prove("same number of droplets as the unfiltered result above the minimal radius", len(res) == len(keep))
        for i, d in enumerate(res):
            env.prove(f"every returned droplet is larger than the minimal radius [{i}]", env.num(d.radius) > m)
        if len(res) == len(keep):
            for i, (x, y) in enumerate(zip(res, keep)):
                env.prove(f"no droplet above the minimal radius is dropped or altered [{i}]", env.And(
                    env.eq(x.radius, y.radius), *[env.eq(p, q) for p, q in zip(x.position, y.position)]))
        env.cover("something filtered", len(keep) < len(allres))
        env.cover("radius exactly the minimal radius", env.Or(*[env.num(d.radius) == m for d in allres]) if len(allres) else False)
        env.observe("n", len(res))


class C18MinRadiusRefined(Harness):
    name = "C18MinRadiusRefined"
    prop = "C18"
    bounds = ("locate_droplets(refine=True) with symbolic threshold in [0.05, 0.6] and symbolic minimal_radius on one "
              "concrete 1D field (8 unit cells) sampled from a diffuse droplet of radius 3/2, width 3/4: every returned "
              "droplet is larger than the minimal radius; a droplet whose refined radius exceeds it is kept")
    stubs = ["least_squares contract stub without the cost clause; extra clause, checked against the real optimiser in the "
             "float replay: on this field the fitted radius lies within 1/100 of 3/2 (and the result within 1/2 of the start "
             "in unbounded parameters)"]
    cost = 3
    mod_mode = "fork"
    exact_validation = False
    RT = F(3, 2)

    def configs(self, tier):
        return [dict(per="n")] + ([dict(per="p")] if tier == "thorough" else [])

    def install(self, env, cfg):
        if env.mode != "float":
            from symx.models import optimize
            from symx import core

            def hint(i, n, v, x0):
                if i == 1:      # parameters of a 1D diffuse droplet: position, radius, width
                    core.assume(core.And(v >= self.RT - F(1, 100), v <= self.RT + F(1, 100)),
                                "contract refinement: fitted radius within 1/100 of the radius the field was sampled from")
            optimize.reset(cost=False, window=F(1, 2), hint=hint)

    def sample(self, cfg, rng):
        return dict(t=F(rng.randint(50, 600), 1000), m=F(rng.randint(0, 4000), 1000))

    def body(self, env, cfg):
        import math
        t = env.real("t", F(1, 20), F(3, 5))
        m = env.real("m", 0, 4)
        grid = env.cartesian([(0, 8)], [8], [cfg["per"] == "p"])
        prof = [F(round((0.5 + 0.5 * math.tanh((1.5 - abs(i + 0.5 - 4.0)) / 0.75)) * 10 ** 9), 10 ** 9) for i in range(8)]
        field = env.field(grid, env.array(prof))
        raw = env.IA.locate_droplets(field, threshold=t, minimal_radius=-float("inf"))
        env.assume(len(raw) == 1, "one cluster found")
        r_c = env.num(raw[0].radius)
        unf = env.IA.locate_droplets(field, threshold=t, refine=True, minimal_radius=-float("inf"))
        env.assume(len(unf) == 1, "one droplet found")
        r_fit = env.num(unf[0].radius)
        env.assume(env.And(r_fit >= self.RT - F(1, 100), r_fit <= self.RT + F(1, 100)),
                   "the optimiser recovers the sampled radius within 1/100 (checked on the real optimiser in the float replay)")
        res = env.IA.locate_droplets(field, threshold=t, refine=True, minimal_radius=m)
        for i, d in enumerate(res):
            dr = env.num(d.radius)
            env.prove(f"every returned (refined) droplet is larger than the minimal radius [{i}]", dr > m,
                      margin=lambda dl: m - dr >= dl)
        env.prove("a droplet whose unrefined and refined radii exceed the minimal radius (by a margin) is kept",
                  env.Implies(env.And(m < self.RT - F(1, 50), m < r_c), len(res) == 1))
        env.prove("a droplet whose radius is below the minimal radius by a margin is dropped",
                  env.Implies(m > self.RT + F(1, 50), len(res) == 0))
        env.cover("filtered after refinement", len(res) == 0)
        env.observe("n", len(res))


HARNESSES = [C18Threshold, C18Otsu, C18MinRadius, C18MinRadiusRefined]
