"""independent reference formulas shared by harnesses (written from the property text)"""
from fractions import Fraction as F


def minimage_sq(env, delta, L, kmax=4):
    """min over integer k in [-kmax, kmax] of (delta + k L)^2"""
    best = None
    for k in range(-kmax, kmax + 1):
        v = (delta + k * L) * (delta + k * L)
        best = v if best is None else env.min(best, v)
    return best


def dist_sq(env, p, q, periods=None, kmax=4):
    """squared (periodic) distance; periods: per axis None or the period length"""
    tot = 0
    for i in range(len(p)):
        d = p[i] - q[i]
        if periods is not None and periods[i] is not None:
            tot = tot + minimage_sq(env, d, periods[i], kmax)
        else:
            tot = tot + d * d
    return tot


def surf_lt(env, d2, s, m):
    """sqrt(d2) - s < m   (s = sum of radii, m = threshold), without taking roots"""
    t = s + m
    return env.And(t > 0, d2 < t * t)


def minimage(env, delta, L, kmax=4):
    """the representative of delta modulo L with the smallest absolute value (ties -> any)"""
    best = None
    for k in range(-kmax, kmax + 1):
        v = delta + k * L
        best = v if best is None else env.ite(v * v < best * best, v, best)
    return best
