"""C03 - a rendered phase field is a faithful, finite picture of the droplet"""
from fractions import Fraction as F
import itertools
import math

from symx.runner import Harness
from harness import gridfam
from harness.oracle import dist_sq, minimage


def _ix(idx):
    return "[" + ",".join(str(i) for i in idx) + "]"


# grid configurations shared by the C03 harnesses
def grid_cfgs(tier, dims=(1, 2, 3), radial=True, big=False):
    c = []
    if 1 in dims:
        c += [dict(kind="cart", shape=[5], per="n"), dict(kind="cart", shape=[5], per="p")]
    if 2 in dims:
        c += [dict(kind="cart", shape=[3, 3], per="pn"), dict(kind="cart", shape=[3, 2], per="np", sp="b", org="0")]
        if tier == "thorough" or big:
            c += [dict(kind="cart", shape=[4, 3], per="pp"), dict(kind="cart", shape=[4, 4], per="nn")]
        if radial:
            c += [dict(kind="polar", R="5/2", n=4)]
    if 3 in dims:
        c += [dict(kind="cart", shape=[2, 2, 2], per="npn")]
        if tier == "thorough":
            c += [dict(kind="cart", shape=[3, 2, 2], per="pnp")]
        if radial:
            c += [dict(kind="spherical", R="2", n=4), dict(kind="cyl", shape=[2, 3], R="1", z0="-1", z1="2", pz=False),
                  dict(kind="cyl", shape=[2, 3], R="1", z0="-1", z1="2", pz=True)]
    return c


def centres(sp):
    """list of (index, Cartesian cell-centre coordinates as Fractions) for any grid spec"""
    if sp["kind"] == "cart":
        return gridfam.cell_centres(sp)
    if sp["kind"] == "polar":
        return [((i,), (F(2 * i + 1, 2) * sp["dr"], F(0))) for i in range(sp["n"])]
    if sp["kind"] == "spherical":
        return [((i,), (F(0), F(0), F(2 * i + 1, 2) * sp["dr"])) for i in range(sp["n"])]
    nr, nz = sp["shape"]
    return [((i, j), (F(2 * i + 1, 2) * sp["dr"], F(0), sp["z0"] + F(2 * j + 1, 2) * sp["dz"]))
            for i in range(nr) for j in range(nz)]


def grid_periods(env, sp):
    if sp["kind"] == "cart":
        return gridfam.periods(env, sp)
    # py-pde 0.58 does not wrap the z-distance on cylindrical grids (its difference_vector applies the
    # period to the y component, which vanishes for on-axis droplets): rendering is not periodic there
    return [None] * sp["dim"]


def droplet_centre(env, sp, sample=None, rng=None):
    """symbolic centre compatible with the grid's symmetry; returns list of coordinates"""
    dim = len(sp["shape"]) if sp["kind"] == "cart" else sp["dim"]
    if sp["kind"] == "cart":
        c = []
        for a in range(dim):
            lo, hi = sp["bounds"][a]
            L = hi - lo
            c.append(env.real(f"c{a}", lo - L, hi + L) if sp["periodic"][a] else env.real(f"c{a}", lo - 1, hi + 1))
        return c
    if sp["kind"] in ("polar", "spherical"):
        return [0] * dim
    return [0, 0, env.real("c2", sp["z0"] - 1, sp["z1"] + 1)]


def sample_centre(sp, rng, w):
    if sp["kind"] == "cart":
        for a, ((lo, hi), per) in enumerate(zip(sp["bounds"], sp["periodic"])):
            L = hi - lo
            a0, a1 = (lo - L, hi + L) if per else (lo - 1, hi + 1)
            w[f"c{a}"] = a0 + (a1 - a0) * F(rng.randint(0, 10000), 10000)
    elif sp["kind"] == "cyl":
        w["c2"] = sp["z0"] - 1 + (sp["z1"] - sp["z0"] + 2) * F(rng.randint(0, 10000), 10000)


def levels(env):
    vmin, vmax = env.real("vmin", -4, 4), env.real("vmax", -4, 4)
    return vmin, vmax


def check_levels(env, tag, v, vmin, vmax, inside):
    """value between the levels; exceeds the midpoint (towards vmax) exactly when `inside`"""
    lo, hi = env.min(vmin, vmax), env.max(vmin, vmax)
    env.prove(f"value lies between the outside and inside values {tag}", env.And(env.le(lo, v), env.le(v, hi)))
    mid2 = vmin + vmax
    env.prove(f"beyond the midpoint exactly when the centre is inside the interface {tag}",
              env.Implies(env.Not(env.eq(vmin, vmax)), env.Iff((2 * v - mid2) * (vmax - vmin) > 0, inside)))


class C03Sharp(Harness):
    name = "C03Sharp"
    prop = "C03"
    bounds = ("SphericalDroplet and DiffuseDroplet(width=0) on Cartesian 1D 5 / 2D 3x3, 3x2 / 3D 2x2x2, polar 4, spherical 4, "
              "cylindrical 2x3; centre (one period around the box), radius>=0, vmin, vmax symbolic")
    stubs = ["py-pde grid / ScalarField model"]
    cost = 3
    mod_mode = "fork"

    def configs(self, tier):
        return [dict(g, cls=c) for g in grid_cfgs(tier) for c in ("SphericalDroplet", "DiffuseDroplet")]

    def sample(self, cfg, rng):
        sp = gridfam.spec_of(cfg)
        w = dict(r=F(rng.randint(0, 3000), 1000), vmin=F(rng.randint(-4000, 4000), 1000), vmax=F(rng.randint(-4000, 4000), 1000))
        sample_centre(sp, rng, w)
        return w

    def body(self, env, cfg):
        grid, sp = gridfam.make(env, cfg)
        c = droplet_centre(env, sp)
        r = env.real("r", 0, 4)
        vmin, vmax = levels(env)
        d = env.D.SphericalDroplet(c, r) if cfg["cls"] == "SphericalDroplet" else env.D.DiffuseDroplet(c, r, 0)
        f = d.get_phase_field(grid, vmin=vmin, vmax=vmax)
        per = grid_periods(env, sp)
        for idx, ctr in centres(sp):
            v = env.num(f.data[idx])
            d2 = dist_sq(env, ctr, c, per, kmax=2)
            inside = d2 < r * r
            env.prove(f"sharp droplet: exactly the indicator {_ix(idx)}", env.And(
                env.Implies(inside, env.eq(v, vmax)), env.Implies(env.Not(inside), env.eq(v, vmin))))
        b = d._get_phase_field(grid, dtype=bool)
        env.prove("boolean rendering has dtype bool", b.dtype == bool)
        for idx, ctr in centres(sp):
            env.prove(f"boolean rendering = inside {_ix(idx)}",
                      env.Iff(bool(b[idx]), dist_sq(env, ctr, c, per, kmax=2) < r * r))
        env.cover("radius zero", r == 0)
        env.observe("sum", sum(float(x) for x in f.data.flat) if env.mode != "sym" else 0)


class C03Diffuse(Harness):
    name = "C03Diffuse"
    prop = "C03"
    bounds = ("DiffuseDroplet with interface width symbolic > 0 or unset, same grids as C03Sharp (+ 4x3 pp); centre, "
              "radius>=0, width, vmin, vmax symbolic; per cell and per pair of cells")
    stubs = ["py-pde grid / ScalarField model", "tanh abstracted: strictly increasing, odd, range (-1,1), sign preserving"]
    cost = 3
    mod_mode = "disj"

    def configs(self, tier):
        return [dict(g, width=w) for g in grid_cfgs(tier, big=True) for w in ("sym", "none")]

    def sample(self, cfg, rng):
        sp = gridfam.spec_of(cfg)
        w = dict(r=F(rng.randint(0, 3000), 1000), vmin=F(rng.randint(-4000, 4000), 1000),
                 vmax=F(rng.randint(-4000, 4000), 1000), w=F(rng.randint(1, 2000), 1000))
        sample_centre(sp, rng, w)
        return w

    def body(self, env, cfg):
        grid, sp = gridfam.make(env, cfg)
        c = droplet_centre(env, sp)
        r = env.real("r", 0, 4)
        vmin, vmax = levels(env)
        if cfg["width"] == "sym":
            w = env.real("w", 0, 2, strict_lo=True)
            d = env.D.DiffuseDroplet(c, r, w)
        else:
            d = env.D.DiffuseDroplet(c, r)
            env.prove("unset width reads back as None", d.interface_width is None)
        f = d.get_phase_field(grid, vmin=vmin, vmax=vmax)
        per = grid_periods(env, sp)
        cs = centres(sp)
        D2 = {}
        for idx, ctr in cs:
            v = env.num(f.data[idx])
            D2[idx] = dist_sq(env, ctr, c, per, kmax=2)
            check_levels(env, _ix(idx), v, vmin, vmax, D2[idx] < r * r)
        raw = d._get_phase_field(grid)
        pairs = list(itertools.combinations([i for i, _ in cs], 2))
        if len(pairs) > 40:
            pairs = pairs[::max(1, len(pairs) // 40)]
        for i, j in pairs:
            vi, vj = env.num(raw[i]), env.num(raw[j])
            env.prove(f"value never increases with distance {_ix(i + j)}", env.And(
                env.Implies(D2[i] <= D2[j], vi >= vj), env.Implies(D2[j] <= D2[i], vj >= vi)))
        env.cover("a cell centre exactly on the interface", env.Or(*[D2[i] == r * r for i, _ in cs]))
        env.observe("sum", sum(float(x) for x in f.data.flat) if env.mode != "sym" else 0)


def interface_2d(env, r, amps, phi):
    tot = 1
    for k, a in enumerate(amps):
        n = k // 2 + 1
        ang = env.lift(n * phi)
        tot = tot + a * (env.sin(ang) if k % 2 == 0 else env.cos(ang))
    return r * tot


class C03Perturbed2D(Harness):
    name = "C03Perturbed2D"
    prop = "C03"
    bounds = ("PerturbedDroplet2D with 2 (thorough 4) amplitudes in [-1,1], width symbolic>0 / 0, on Cartesian 3x3 (pn), "
              "3x2 (np); centre, radius, width, amplitudes, vmin, vmax symbolic")
    stubs = ["tanh abstraction", "sin/cos abstraction (s^2+c^2=1 per argument term)", "arctan2: functional consistency"]
    cost = 5
    mod_mode = "fork"

    def configs(self, tier):
        gs = [g for g in grid_cfgs(tier, dims=(2,), radial=False)]
        c = [dict(g, modes=m, width=w) for g in gs for m in ((1, 2) + ((4,) if tier == "thorough" else ()))
             for w in ("sym", "zero")]
        return c

    def sample(self, cfg, rng):
        sp = gridfam.spec_of(cfg)
        w = dict(r=F(rng.randint(1, 3000), 1000), vmin=F(rng.randint(-4000, 4000), 1000),
                 vmax=F(rng.randint(-4000, 4000), 1000), w=F(rng.randint(1, 2000), 1000))
        for k in range(cfg["modes"]):
            w[f"a{k}"] = F(rng.randint(-400, 400), 1000)
        sample_centre(sp, rng, w)
        return w

    def body(self, env, cfg):
        grid, sp = gridfam.make(env, cfg)
        c = droplet_centre(env, sp)
        r = env.real("r", 0, 4)
        vmin, vmax = levels(env)
        amps = [env.real(f"a{k}", -1, 1) for k in range(cfg["modes"])]
        w = env.real("w", 0, 2, strict_lo=True) if cfg["width"] == "sym" else 0
        d = env.D.PerturbedDroplet2D(c, r, w, amps)
        f = d.get_phase_field(grid, vmin=vmin, vmax=vmax)
        per = grid_periods(env, sp)
        for idx, ctr in centres(sp):
            v = env.num(f.data[idx])
            dv = [ctr[a] - c[a] for a in range(2)]
            dv = [minimage(env, dv[a], per[a], kmax=2) if per[a] is not None else dv[a] for a in range(2)]
            d2 = dv[0] * dv[0] + dv[1] * dv[1]
            phi = env.arctan2(dv[1], dv[0])
            I = interface_2d(env, r, amps, phi)
            inside = env.And(I > 0, d2 < I * I)
            if cfg["width"] == "zero":
                env.prove(f"sharp perturbed droplet: exactly the indicator {_ix(idx)}", env.And(
                    env.Implies(inside, env.eq(v, vmax)), env.Implies(env.Not(inside), env.eq(v, vmin))))
            else:
                check_levels(env, _ix(idx), v, vmin, vmax, inside)
        env.observe("sum", sum(float(x) for x in f.data.flat) if env.mode != "sym" else 0)


HARNESSES = [C03Sharp, C03Diffuse, C03Perturbed2D]
