"""C03 - a rendered phase field is a faithful, finite picture of the droplet

Structure: C03Polar proves that `polar_coordinates` (distance and angles of every cell centre from the
droplet centre) equals the harness's own periodic minimum-image geometry for all centres.  The rendering
harnesses then take the distances/angles returned by `polar_coordinates` for the same symbolic centre as
given (the second call yields the identical terms) and decide the profile obligations on them; both sets
of obligations are universally quantified over the same inputs, so together they give the property.
"""
from fractions import Fraction as F
import itertools
import math

from symx.runner import Harness
from harness import gridfam
from harness.oracle import dist_sq, minimage


def _ix(idx):
    return "[" + ",".join(str(i) for i in idx) + "]"


def grid_cfgs(tier, dims=(1, 2, 3), radial=True, big=False):
    c = []
    if 1 in dims:
        c += [dict(kind="cart", shape=[5], per="n"), dict(kind="cart", shape=[5], per="p")]
    if 2 in dims:
        c += [dict(kind="cart", shape=[3, 3], per="pn"), dict(kind="cart", shape=[3, 2], per="np", sp="b", org="0")]
        if tier == "thorough" or big:
            c += [dict(kind="cart", shape=[4, 3], per="pp")]
        if tier == "thorough":
            c += [dict(kind="cart", shape=[4, 4], per="nn")]
        if radial:
            c += [dict(kind="polar", R="5/2", n=4)]
    if 3 in dims:
        c += [dict(kind="cart", shape=[2, 2, 2], per="npn", sp="b", org="0")]
        if tier == "thorough":
            c += [dict(kind="cart", shape=[3, 2, 2], per="pnp")]
        if radial:
            c += [dict(kind="spherical", R="2", n=4), dict(kind="cyl", shape=[2, 3], R="1", z0="-1", z1="2", pz=False),
                  dict(kind="cyl", shape=[2, 3], R="1", z0="-1", z1="2", pz=True)]
    return c


def centres(sp):
    """list of (index, Cartesian cell-centre coordinates as Fractions) for any grid spec"""
    if sp["kind"] == "cart":
        return gridfam.cell_centres(sp)
    if sp["kind"] == "polar":
        return [((i,), (F(2 * i + 1, 2) * sp["dr"], F(0))) for i in range(sp["n"])]
    if sp["kind"] == "spherical":
        return [((i,), (F(0), F(0), F(2 * i + 1, 2) * sp["dr"])) for i in range(sp["n"])]
    nr, nz = sp["shape"]
    return [((i, j), (F(2 * i + 1, 2) * sp["dr"], F(0), sp["z0"] + F(2 * j + 1, 2) * sp["dz"]))
            for i in range(nr) for j in range(nz)]


def grid_periods(env, sp):
    if sp["kind"] == "cart":
        return gridfam.periods(env, sp)
    # py-pde 0.58 does not wrap the z-distance on cylindrical grids (its difference_vector applies the
    # period to the y component, which vanishes for on-axis droplets): rendering is not periodic there
    return [None] * sp["dim"]


def gdim(sp):
    return len(sp["shape"]) if sp["kind"] == "cart" else sp["dim"]


def centre_ranges(sp):
    """per coordinate None (fixed to 0 by symmetry) or (lo, hi) of the symbolic centre"""
    if sp["kind"] == "cart":
        out = []
        for a, ((lo, hi), per) in enumerate(zip(sp["bounds"], sp["periodic"])):
            L = hi - lo
            out.append((lo - L / 2, hi + L / 2) if per else (lo - sp["spacing"][a], hi + sp["spacing"][a]))
        return out
    if sp["kind"] in ("polar", "spherical"):
        return [None] * sp["dim"]
    return [None, None, (sp["z0"] - sp["dz"], sp["z1"] + sp["dz"])]


def droplet_centre(env, sp, name="c"):
    return [0 if rg is None else env.real(f"{name}{a}", rg[0], rg[1]) for a, rg in enumerate(centre_ranges(sp))]


def sample_centre(sp, rng, w, name="c"):
    for a, rg in enumerate(centre_ranges(sp)):
        if rg is not None:
            w[f"{name}{a}"] = rg[0] + (rg[1] - rg[0]) * F(rng.randint(0, 10000), 10000)


def code_polar(env, grid, c, ret_angle):
    return env.SPH.polar_coordinates(grid, origin=env.array(c), ret_angle=ret_angle)


def levels(env):
    return env.real("vmin", -4, 4), env.real("vmax", -4, 4)


def check_levels(env, tag, v, vmin, vmax, inside):
    """value finite, between the levels; beyond the midpoint (towards vmax) exactly when `inside`"""
    lo, hi = env.min(vmin, vmax), env.max(vmin, vmax)
    env.prove(f"value is finite {tag}", env.finite(v))
    if not env.finite(v):
        return
    env.prove(f"value lies between the outside and inside values {tag}", env.And(env.le(lo, v), env.le(v, hi)))
    env.prove(f"beyond the midpoint exactly when the centre is inside the interface {tag}",
              env.Implies(env.Not(env.eq(vmin, vmax)), env.Iff((2 * v - (vmin + vmax)) * (vmax - vmin) > 0, inside)))


def check_sharp(env, tag, v, vmin, vmax, inside):
    env.prove(f"value is finite {tag}", env.finite(v))
    if not env.finite(v):
        return
    env.prove(f"sharp droplet: exactly the indicator {tag}", env.And(
        env.Implies(inside, env.eq(v, vmax)), env.Implies(env.Not(inside), env.eq(v, vmin))))


class C03Polar(Harness):
    name = "C03Polar"
    prop = "C03"
    bounds = ("polar_coordinates on Cartesian 1D 5 / 2D 3x3 pn, 3x2 np, 4x3 pp / 3D 2x2x2 npn, polar 4, spherical 4, "
              "cylindrical 2x3 (both periodic_z); droplet centre symbolic (half a period / one cell around the box)")
    stubs = ["py-pde grid model", "arccos(u)=t: cos t = u, sin t >= 0; arctan2(y,x)=p: hypot*cos p = x, hypot*sin p = y; "
             "sin^2+cos^2=1 per argument term", "sqrt lazy"]
    cost = 2
    mod_mode = "fork"
    angle_axioms = True

    def configs(self, tier):
        return grid_cfgs(tier)

    def sample(self, cfg, rng):
        w = {}
        sample_centre(gridfam.spec_of(cfg), rng, w)
        if not w:
            w["dummy"] = F(0)
        return w

    def body(self, env, cfg):
        grid, sp = gridfam.make(env, cfg)
        dim = gdim(sp)
        c = droplet_centre(env, sp)
        if all(x is None for x in centre_ranges(sp)):
            env.real("dummy", 0, 0)
        per = grid_periods(env, sp)
        res = code_polar(env, grid, c, True)
        dist_only = code_polar(env, grid, c, False)
        dist, angles = res[0], res[1:]
        env.prove("number of angle arrays", len(angles) == (1 if dim < 3 else 2))
        for idx, ctr in centres(sp):
            dv = [ctr[a] - c[a] for a in range(dim)]
            dv = [minimage(env, dv[a], per[a], kmax=2) if per[a] is not None else dv[a] for a in range(dim)]
            d2 = sum((x * x for x in dv), env.const(0))
            dd = dist[idx]
            env.prove(f"distance is finite {_ix(idx)}", env.finite(dd) and env.finite(dist_only[idx]))
            if not env.finite(dd):
                continue
            dd = env.num(dd)
            env.prove(f"distance = periodic minimum-image distance {_ix(idx)}", env.And(dd >= 0, env.eq(dd * dd, d2)))
            env.prove_eq(f"distance without angles agrees {_ix(idx)}", dist_only[idx], dd)
            for k, a in enumerate(angles):
                env.prove(f"angle {k} is finite {_ix(idx)}", env.finite(a[idx]))
            if not all(env.finite(a[idx]) for a in angles):
                continue
            dm = env.mat(dd)
            if dim == 1:
                s = env.num(angles[0][idx])
                env.prove(f"1D angle = sign of the difference {_ix(idx)}", env.And(
                    env.Implies(dv[0] > 0, env.eq(s, 1)), env.Implies(dv[0] < 0, env.eq(s, -1)),
                    env.Implies(env.eq(dv[0], 0), env.eq(s, 0))))
            elif dim == 2:
                ph = env.num(angles[0][idx])
                env.prove(f"2D angle: distance * (cos, sin) = minimum-image vector {_ix(idx)}", env.And(
                    env.eq(dm * env.cos(ph), dv[0]), env.eq(dm * env.sin(ph), dv[1])))
            else:
                th, ph = env.num(angles[0][idx]), env.num(angles[1][idx])
                st, ct = env.sin(th), env.cos(th)
                env.prove(f"3D polar angle: distance * cos(theta) = dz, sin(theta) >= 0 {_ix(idx)}",
                          env.And(env.eq(dm * ct, dv[2]), env.Implies(dm > 0, env.le(0, st))))
                env.prove(f"3D azimuth: distance * sin(theta) * (cos, sin)(phi) = (dx, dy) {_ix(idx)}", env.And(
                    env.eq(dm * st * env.cos(ph), dv[0]), env.eq(dm * st * env.sin(ph), dv[1])))
        env.cover("centre exactly on a cell centre", env.Or(*[
            env.And(*[env.eq(ctr[a], c[a]) for a in range(dim)]) for _, ctr in centres(sp)]))
        env.observe("d0", dist.flat[0])


class C03Sharp(Harness):
    name = "C03Sharp"
    prop = "C03"
    bounds = ("SphericalDroplet and DiffuseDroplet(width=0) on Cartesian 1D 5 / 2D 3x2, 3x3 / 3D 2x2x2 (thorough), polar, "
              "spherical, cylindrical; centre, radius>=0, vmin, vmax symbolic; float and boolean rendering")
    stubs = ["py-pde grid / ScalarField model", "distances taken from polar_coordinates (C03Polar)"]
    cost = 3
    mod_mode = "fork"

    def configs(self, tier):
        gs = grid_cfgs(tier)
        out = []
        for g in gs:
            heavy = g["kind"] == "cart" and len(g["shape"]) >= 2
            if heavy and tier != "thorough" and g["shape"] != [3, 2]:
                continue
            out.append(dict(g, cls="SphericalDroplet"))
            if not heavy or tier == "thorough":
                out.append(dict(g, cls="DiffuseDroplet"))
        return out

    def sample(self, cfg, rng):
        sp = gridfam.spec_of(cfg)
        w = dict(r=F(rng.randint(0, 3000), 1000), vmin=F(rng.randint(-4000, 4000), 1000), vmax=F(rng.randint(-4000, 4000), 1000))
        sample_centre(sp, rng, w)
        return w

    def body(self, env, cfg):
        grid, sp = gridfam.make(env, cfg)
        c = droplet_centre(env, sp)
        r = env.real("r", 0, 4)
        vmin, vmax = levels(env)
        d = env.D.SphericalDroplet(c, r) if cfg["cls"] == "SphericalDroplet" else env.D.DiffuseDroplet(c, r, 0)
        f = d.get_phase_field(grid, vmin=vmin, vmax=vmax)
        b = d._get_phase_field(grid, dtype=bool)
        dist = code_polar(env, grid, c, False)
        env.prove("boolean rendering has dtype bool", b.dtype == bool)
        for idx, _ in centres(sp):
            inside = env.num(dist[idx]) < r
            check_sharp(env, _ix(idx), env.num(f.data[idx]), vmin, vmax, inside)
            env.prove(f"boolean rendering = inside {_ix(idx)}", env.Iff(bool(b[idx]), inside))
        env.cover("radius zero", r == 0)
        env.observe("sum", sum(float(x) for x in f.data.flat) if env.mode != "sym" else 0)


class C03Diffuse(Harness):
    name = "C03Diffuse"
    prop = "C03"
    bounds = ("DiffuseDroplet with interface width symbolic > 0 or unset on every grid of C03Polar; centre, radius>=0, "
              "width, vmin, vmax symbolic; per cell and per pair of cells (monotone in distance)")
    stubs = ["py-pde grid / ScalarField model", "tanh abstracted: strictly increasing, odd, range (-1,1), sign preserving",
             "distances taken from polar_coordinates (C03Polar)"]
    cost = 3
    mod_mode = "fork"

    def configs(self, tier):
        return [dict(g, width=w) for g in grid_cfgs(tier) for w in ("sym", "none")]

    def sample(self, cfg, rng):
        sp = gridfam.spec_of(cfg)
        w = dict(r=F(rng.randint(0, 3000), 1000), vmin=F(rng.randint(-4000, 4000), 1000),
                 vmax=F(rng.randint(-4000, 4000), 1000), w=F(rng.randint(1, 2000), 1000))
        sample_centre(sp, rng, w)
        return w

    def body(self, env, cfg):
        grid, sp = gridfam.make(env, cfg)
        c = droplet_centre(env, sp)
        r = env.real("r", 0, 4)
        vmin, vmax = levels(env)
        if cfg["width"] == "sym":
            w = env.real("w", 0, 2, strict_lo=True)
            d = env.D.DiffuseDroplet(c, r, w)
        else:
            d = env.D.DiffuseDroplet(c, r)
            env.prove("unset width reads back as None", d.interface_width is None)
        f = d.get_phase_field(grid, vmin=vmin, vmax=vmax)
        raw = d._get_phase_field(grid)
        dist = code_polar(env, grid, c, False)
        cs = centres(sp)
        for idx, _ in cs:
            check_levels(env, _ix(idx), env.num(f.data[idx]), vmin, vmax, env.num(dist[idx]) < r)
            v = env.num(raw[idx])
            env.prove(f"normalised profile within [0, 1] {_ix(idx)}", env.And(env.le(0, v), env.le(v, 1)))
        pairs = list(itertools.combinations([i for i, _ in cs], 2))
        if len(pairs) > 24:
            pairs = pairs[::len(pairs) // 24 + 1]
        for i, j in pairs:
            vi, vj = env.num(raw[i]), env.num(raw[j])
            di, dj = env.mat(dist[i]), env.mat(dist[j])
            env.prove(f"value never increases with distance {_ix(i + j)}", env.And(
                env.Implies(di <= dj, env.le(vj, vi)), env.Implies(dj <= di, env.le(vi, vj))))
        env.cover("a cell centre exactly on the interface", env.Or(*[env.num(dist[i]) == r for i, _ in cs]))
        env.observe("sum", sum(float(x) for x in f.data.flat) if env.mode != "sym" else 0)


def interface_2d(env, r, amps, phi):
    tot = 1
    for k, a in enumerate(amps):
        n = k // 2 + 1
        ang = env.lift(n * phi)
        tot = tot + a * (env.sin(ang) if k % 2 == 0 else env.cos(ang))
    return r * tot


def real_harmonic(env, k, theta, phi):
    """real spherical harmonic of combined index k = l(l+1)+m, standard definition in terms of Y_l^|m|"""
    l = math.isqrt(k)
    m = k - l * (l + 1)
    if env.mode == "float":
        from scipy.special import sph_harm_y
        y = complex(sph_harm_y(l, abs(m), theta, phi))
        re, im = y.real, y.imag
    else:
        from symx.models.special import sph_harm_y
        y = sph_harm_y(l, abs(m), theta, phi)
        re, im = y.re, y.im
    if m == 0:
        return re
    s2 = env.const(F(math.sqrt(2)))     # the code multiplies by the double np.sqrt(2)
    sign = -1 if abs(m) % 2 else 1
    return sign * s2 * (re if m > 0 else im)


class C03Perturbed(Harness):
    name = "C03Perturbed"
    prop = "C03"
    bounds = ("PerturbedDroplet2D (1,2 amplitudes; thorough 4) on Cartesian 3x3 pn / 3x2 np; PerturbedDroplet3D (1,3 "
              "amplitudes; thorough 4) on 2x2x2 npn; PerturbedDroplet3DAxisSym (1,2 amplitudes) on cylindrical 2x3; "
              "width symbolic>0 / 0; centre, radius, amplitudes in [-1,1], vmin, vmax symbolic")
    stubs = ["tanh abstraction", "sin/cos abstraction (s^2+c^2=1 per argument term)", "sph_harm_y: fresh complex symbol per "
             "(l, m, theta term, phi term)", "distances and angles taken from polar_coordinates (C03Polar)"]
    cost = 5
    mod_mode = "fork"
    trig_identity = False      # not needed for the profile obligations; keeps the queries small

    def configs(self, tier):
        c = []
        th = tier == "thorough"
        for g in grid_cfgs(tier, dims=(2,), radial=False):
            for m in (1, 2) + ((4,) if th else ()):
                for w in ("sym", "zero"):
                    if w == "zero" and not th:
                        continue
                    c.append(dict(g, cls="PerturbedDroplet2D", modes=m, width=w))
        c.append(dict(kind="cart", shape=[2, 2], per="pn", sp="b", org="0", cls="PerturbedDroplet2D", modes=2, width="zero"))
        for m in (1,) + ((2, 3, 4) if th else ()):
            c.append(dict(kind="cart", shape=[2, 2, 2], per="npn", sp="b", org="0", cls="PerturbedDroplet3D", modes=m,
                          width="sym"))
        for pz in (False, True):
            for m in (1, 2):
                c.append(dict(kind="cyl", shape=[2, 3], R="1", z0="-1", z1="2", pz=pz, cls="PerturbedDroplet3DAxisSym",
                              modes=m, width="sym"))
        return c

    def sample(self, cfg, rng):
        sp = gridfam.spec_of(cfg)
        w = dict(r=F(rng.randint(1, 3000), 1000), vmin=F(rng.randint(-4000, 4000), 1000),
                 vmax=F(rng.randint(-4000, 4000), 1000), w=F(rng.randint(1, 2000), 1000))
        for k in range(cfg["modes"]):
            w[f"a{k}"] = F(rng.randint(-400, 400), 1000)
        sample_centre(sp, rng, w)
        return w

    def body(self, env, cfg):
        grid, sp = gridfam.make(env, cfg)
        c = droplet_centre(env, sp)
        r = env.real("r", 0, 4)
        vmin, vmax = levels(env)
        amps = [env.real(f"a{k}", -1, 1) for k in range(cfg["modes"])]
        w = env.real("w", 0, 2, strict_lo=True) if cfg["width"] == "sym" else 0
        d = getattr(env.D, cfg["cls"])(c, r, w, amps)
        f = d.get_phase_field(grid, vmin=vmin, vmax=vmax)
        res = code_polar(env, grid, c, True)
        dist, angles = res[0], res[1:]
        for idx, _ in centres(sp):
            if not all(env.finite(a[idx]) for a in angles):
                env.prove(f"value is finite {_ix(idx)}", env.finite(f.data[idx]))
                continue
            if cfg["cls"] == "PerturbedDroplet2D":
                I = interface_2d(env, r, amps, env.num(angles[0][idx]))
            elif cfg["cls"] == "PerturbedDroplet3D":
                th, ph = env.num(angles[0][idx]), env.num(angles[1][idx])
                I = r * (1 + sum((amps[k] * real_harmonic(env, k + 1, th, ph) for k in range(len(amps))), env.const(0)))
            else:
                th = env.num(angles[0][idx])
                I = r * (1 + sum((amps[k] * real_harmonic(env, (k + 1) * (k + 2), th, 0) for k in range(len(amps))),
                                 env.const(0)))
            inside = env.num(dist[idx]) < I
            if cfg["width"] == "zero":
                check_sharp(env, _ix(idx), env.num(f.data[idx]), vmin, vmax, inside)
            else:
                check_levels(env, _ix(idx), env.num(f.data[idx]), vmin, vmax, inside)
        env.observe("sum", sum(float(x) for x in f.data.flat) if env.mode != "sym" else 0)


class C03Translate(Harness):
    name = "C03Translate"
    prop = "C03"
    bounds = ("DiffuseDroplet (width symbolic>0) and SphericalDroplet on periodic Cartesian 1D 5 / 2D 3x3 pn, 4x3 pp "
              "(thorough): translation by m in {1,-2} cells along each periodic axis rolls the field")
    stubs = ["tanh abstraction", "py-pde grid model"]
    cost = 4
    mod_mode = "fork"

    def configs(self, tier):
        gs = [dict(kind="cart", shape=[5], per="p"), dict(kind="cart", shape=[3, 3], per="pn")]
        if tier == "thorough":
            gs.append(dict(kind="cart", shape=[4, 3], per="pp"))
        return [dict(g, cls=cl, m=m) for g in gs for cl in ("DiffuseDroplet", "SphericalDroplet") for m in (1, -2)]

    def sample(self, cfg, rng):
        sp = gridfam.spec_of(cfg)
        w = dict(r=F(rng.randint(0, 3000), 1000), w=F(rng.randint(1, 2000), 1000))
        sample_centre(sp, rng, w)
        return w

    def body(self, env, cfg):
        grid, sp = gridfam.make(env, cfg)
        dim = gdim(sp)
        c = droplet_centre(env, sp)
        r = env.real("r", 0, 4)
        m = cfg["m"]
        mk = (lambda p: env.D.DiffuseDroplet(p, r, env.real("w", 0, 2, strict_lo=True))) \
            if cfg["cls"] == "DiffuseDroplet" else (lambda p: env.D.SphericalDroplet(p, r))
        base = mk(c)._get_phase_field(grid)
        for a in range(dim):
            if not sp["periodic"][a]:
                continue
            c2 = list(c)
            c2[a] = c[a] + m * sp["spacing"][a]
            moved = mk(c2)._get_phase_field(grid)
            n = sp["shape"][a]
            for idx, _ in centres(sp):
                src = list(idx)
                src[a] = (idx[a] - m) % n
                env.prove_eq(f"translation by whole cells along a periodic axis rolls the field {_ix(idx)}",
                             moved[idx], base[tuple(src)])
        env.observe("b0", base.flat[0])


class C03Emulsion(Harness):
    name = "C03Emulsion"
    prop = "C03"
    bounds = ("Emulsion.get_phasefield with 2 (thorough 3) droplets (diffuse with symbolic width, one sharp) on Cartesian "
              "1D 5 p and 2D 3x2 np: clip(sum, 0, 1) per cell, order independence, empty emulsion")
    stubs = ["tanh abstraction", "py-pde grid / ScalarField model"]
    cost = 4
    mod_mode = "fork"

    def configs(self, tier):
        gs = [dict(kind="cart", shape=[5], per="p"), dict(kind="cart", shape=[3, 2], per="np", sp="b", org="0")]
        out = [dict(g, K=2, sharp=s) for g in gs for s in (False, True) if not (s and tier != "thorough")]
        out.append(dict(kind="cart", shape=[4], per="n", K=2, sharp=True))
        if tier == "thorough":
            out += [dict(g, K=3, sharp=False) for g in gs]
        return out

    def sample(self, cfg, rng):
        sp = gridfam.spec_of(cfg)
        w = {}
        for k in range(cfg["K"]):
            w[f"r{k}"] = F(rng.randint(0, 3000), 1000)
            w[f"w{k}"] = F(rng.randint(1, 2000), 1000)
            sample_centre(sp, rng, w, name=f"c{k}_")
        return w

    def body(self, env, cfg):
        grid, sp = gridfam.make(env, cfg)
        K = cfg["K"]
        drops = []
        for k in range(K):
            c = droplet_centre(env, sp, name=f"c{k}_")
            r = env.real(f"r{k}", 0, 4)
            if cfg["sharp"] and k == K - 1:
                drops.append(env.D.SphericalDroplet(c, r))
            else:
                drops.append(env.D.DiffuseDroplet(c, r, env.real(f"w{k}", 0, 2, strict_lo=True)))
        singles = [d.get_phase_field(grid).data for d in drops]
        f1 = env.E.Emulsion(drops).get_phasefield(grid).data
        f2 = env.E.Emulsion(list(reversed(drops))).get_phasefield(grid).data
        for idx, _ in centres(sp):
            tot = sum((env.num(s[idx]) for s in singles), env.const(0))
            want = env.min(env.max(tot, 0), 1)
            env.prove_eq(f"emulsion field = clip(sum of droplet fields, 0, 1) {_ix(idx)}", f1[idx], want)
            env.prove_eq(f"independent of droplet order {_ix(idx)}", f2[idx], f1[idx])
        e0 = env.E.Emulsion([]).get_phasefield(grid).data
        env.prove("empty emulsion gives the zero field", all(bool(env.eq(e0[idx], 0)) for idx, _ in centres(sp)))
        env.cover("a clipped cell", env.Or(*[sum((env.num(s[idx]) for s in singles), env.const(0)) > 1
                                             for idx, _ in centres(sp)]))
        env.observe("f0", f1.flat[0])


HARNESSES = [C03Polar, C03Sharp, C03Diffuse, C03Perturbed, C03Translate, C03Emulsion]
