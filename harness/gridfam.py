"""grid families shared by the image-analysis harnesses (C01-C04, C09, C18, C19)"""
from fractions import Fraction as F

SPACINGS = {
    "iso": [F(1), F(1), F(1)],
    "a": [F(3, 4), F(5, 4), F(1)],
    "b": [F(1, 2), F(1), F(3, 2)],
}
ORIGINS = {
    "0": [F(0), F(0), F(0)],
    "o": [F(-1, 3), F(2, 7), F(1, 2)],
}


def cart_spec(shape, per, sp="a", org="o"):
    """dict describing a Cartesian grid: shape tuple, per string of 'p'/'n' per axis"""
    dim = len(shape)
    s = SPACINGS[sp][:dim]
    o = ORIGINS[org][:dim]
    bounds = [(o[i], o[i] + shape[i] * s[i]) for i in range(dim)]
    return dict(kind="cart", shape=list(shape), per=per, sp=sp, org=org, bounds=bounds, spacing=s,
                periodic=[c == "p" for c in per])


def spec_of(cfg):
    """rebuild the spec from a (json-able) config"""
    k = cfg.get("kind", "cart")
    if k == "cart":
        return cart_spec(tuple(cfg["shape"]), cfg["per"], cfg.get("sp", "a"), cfg.get("org", "o"))
    if k in ("polar", "spherical"):
        R = F(cfg["R"])
        n = int(cfg["n"])
        return dict(kind=k, R=R, n=n, dr=R / n, dim=2 if k == "polar" else 3)
    if k == "cyl":
        R = F(cfg["R"])
        nr, nz = cfg["shape"]
        z0, z1 = F(cfg["z0"]), F(cfg["z1"])
        return dict(kind="cyl", R=R, shape=[nr, nz], z0=z0, z1=z1, dr=R / nr, dz=(z1 - z0) / nz,
                    pz=bool(cfg.get("pz", False)), dim=3)
    raise ValueError(k)


def make(env, cfg):
    """(grid, spec) for any of the three Envs"""
    sp = spec_of(cfg)
    if sp["kind"] == "cart":
        g = env.cartesian(sp["bounds"], sp["shape"], sp["periodic"])
    elif sp["kind"] == "polar":
        g = env.polar(sp["R"], sp["n"])
    elif sp["kind"] == "spherical":
        g = env.spherical(sp["R"], sp["n"])
    else:
        g = env.cylindrical(sp["R"], (sp["z0"], sp["z1"]), sp["shape"], sp["pz"])
    return g, sp


def cell_centres(sp):
    """list of (index tuple, centre tuple of Fractions) of a Cartesian spec"""
    import itertools
    out = []
    for idx in itertools.product(*[range(n) for n in sp["shape"]]):
        out.append((idx, tuple(sp["bounds"][a][0] + (F(2 * idx[a] + 1, 2)) * sp["spacing"][a]
                               for a in range(len(idx)))))
    return out


def periods(env, sp):
    return [env.const(b - a) if per else None for (a, b), per in zip(sp["bounds"], sp["periodic"])]
