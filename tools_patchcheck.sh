#!/bin/sh
# usage: tools_patchcheck.sh <patch.diff> <prop> [extra vcheck args]
# copies /repo's package to a scratch dir, applies the patch there, runs the quick check against the copy (VERIF_REPO)
# with evidence/replays redirected to the scratch dir; removes the copy afterwards.  /repo itself is not touched.
PATCH=$1; PROP=$2; shift 2
D=$(mktemp -d /tmp/pchk.XXXXXX)
mkdir -p $D/repo && cp -r /repo/droplets $D/repo/ && cp /repo/pyproject.toml $D/repo/ 2>/dev/null
( cd $D/repo && patch -s -p1 < $PATCH ) || { echo "patch does not apply"; rm -rf $D; exit 9; }
( cd "$(dirname "$0")" && VERIF_REPO=$D/repo VERIF_OUT=$D ./vcheck $PROP "$@" 2>&1 | grep -E "^VIOLATION|^KNOWN|tier=|^HARNESS|^  harness=|^NOTE" | cut -c1-420 | head -12 )
rm -rf $D
